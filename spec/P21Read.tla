------------------------------ MODULE P21Read ------------------------------
(***************************************************************************)
(* Reading one instance of an exchange file (STEPfile::ReadData2,           *)
(* SDAI_Application_instance::STEPread, STEPattribute::STEPread): what the  *)
(* reader must conclude about a parameter list, as far as properties C15    *)
(* (missing required attributes) and C03 (violations are never reported as  *)
(* clean) say.  Severities are the library's scale: 3 NULL, 2 USERMSG,      *)
(* 1 INCOMPLETE, 0 WARNING, -1 INPUT_ERROR, -2 BUG.                         *)
(***************************************************************************)
EXTENDS Integers, Sequences, FiniteSets

Kinds == {"int", "real", "num", "str", "bin", "bool", "log", "enum", "ref", "sel", "li", "lr"}
(* attributes whose domain reaches a simple type through one or two defined types (TYPE lab = STRING; TYPE lab2 = lab) *)
DefinedKinds == {"dstr", "dstr2", "dint", "dint2", "dreal2"}
BaseKind(k) == CASE k \in {"dstr", "dstr2"} -> "str" [] k \in {"dint", "dint2"} -> "int" [] k = "dreal2" -> "real" [] OTHER -> k
Substitutable == {"int", "real", "num", "str"}
SEV_NULL == 3
SEV_USERMSG == 2
SEV_INCOMPLETE == 1

(* ---- C15: an unset ("$" or empty) value ---- *)
(* "accept_null"  : accepted, stays unset                                                      *)
(* "accept_subst" : accepted with a user message, 0 / 0.0 / 0 / '' substituted and written back *)
(* "incomplete"   : instance incomplete, the read fails                                        *)
(* "free"         : the empty form for a required substitutable kind in lenient mode: C15 reads it as an unset *)
(*                  value (substitute), C03 and the repository's own tests as too few parameters (fail)        *)
MissingOutcome(kind, opt, strict, form) ==
  IF opt THEN "accept_null"
  ELSE IF strict THEN "incomplete"
  ELSE IF BaseKind(kind) \in Substitutable THEN (IF form = "$" THEN "accept_subst" ELSE "free")
  ELSE "incomplete"

SubstClass(kind) == IF BaseKind(kind) = "str" THEN "empty" ELSE "zero"

(* is an observation (file severity, class of the value written back) what the outcome demands? *)
Satisfies(outcome, kind, sev, wclass) ==
  CASE outcome = "accept_null"  -> sev >= SEV_USERMSG /\ wclass = "null"
    [] outcome = "accept_subst" -> sev = SEV_USERMSG /\ wclass = SubstClass(kind)
    [] outcome = "incomplete"   -> sev <= SEV_INCOMPLETE
    [] outcome = "free"         -> (sev = SEV_USERMSG /\ wclass = SubstClass(kind)) \/ sev <= SEV_INCOMPLETE

(* Dev_QuotedNumericFiller: for INTEGER / REAL / NUMBER the lenient substitution fails internally (the filler text *)
(* is quoted), the attribute stays unset and the instance is reported with a severity below USERMSG               *)
Dev_QuotedNumericFiller(outcome, kind, sev, wclass) ==
  outcome = "accept_subst" /\ BaseKind(kind) \in {"int", "real", "num"} /\ sev <= SEV_INCOMPLETE /\ wclass = "null"

(* Dev_ComplexPartSeverityDropped: STEPcomplex::STEPread discards the severity (and the strict flag) of each part, *)
(* so an unset required attribute inside a part of a complex instance is accepted silently in both modes          *)
Dev_ComplexPartSeverityDropped(outcome, ctx, sev, wclass) ==
  ctx = "complex" /\ outcome # "accept_null" /\ sev = SEV_NULL /\ wclass = "null"

(* the read "fails" exactly when the reference tool exits 1 *)
ExitOf(sev) == IF sev <= SEV_INCOMPLETE THEN 1 ELSE 0

(* ---- C03: a single violation in one instance of an otherwise conforming file ---- *)
FaultClasses == {"few", "many", "wrongkind", "unknown_kw", "abstract_kw", "bad_enum", "star_not_derived",
                 "value_for_derived", "missing_aggr", "dangling_ref", "wrongtype_ref", "select_outside",
                 "dup_id", "unterminated_inst", "unterminated_str"}
(* literal classes that are clearly not a value of an attribute kind (ambiguous pairs such as an integer literal *)
(* for a REAL or an untyped literal for a SELECT over defined types are deliberately left out)                  *)
WrongLits(kind) ==
  CASE kind = "int"  -> {"real", "str", "bin", "enum", "ref", "list"}
    [] kind = "real" -> {"str", "bin", "enum", "ref", "list"}
    [] kind = "num"  -> {"str", "bin", "enum", "ref", "list"}
    [] kind = "str"  -> {"int", "real", "bin", "enum", "ref", "list"}
    [] kind = "bin"  -> {"int", "real", "str", "enum", "ref", "list"}
    [] kind \in {"bool", "log", "enum"} -> {"int", "real", "str", "bin", "ref", "list"}
    [] kind = "ref"  -> {"int", "real", "str", "bin", "enum", "list"}
    [] kind = "sel"  -> {"real", "bin", "enum", "list"}
    [] kind = "li"   -> {"int", "str", "enum", "ref", "strlist"}
    [] kind = "lr"   -> {"int", "str", "enum", "intlist"}
(* the part of the file a violation may damage: the instance itself; for an unterminated instance also the text *)
(* up to the next ";" outside a string (the following instance); for an unterminated string the rest of the file *)
Region(class) == IF class = "unterminated_inst" THEN "next" ELSE IF class = "unterminated_str" THEN "eof" ELSE "inst"
(* C03: never clean, reference tool exits non-zero; every conforming instance outside the region keeps its values *)
Detected(sev, exit) == sev < SEV_USERMSG /\ exit = 1
=============================================================================

SPECIFICATION Spec
CONSTRAINT Bound
INVARIANT DesignOK

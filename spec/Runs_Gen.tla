---- MODULE Runs_Gen ----
EXTENDS Runs, TLC, Json
CONSTANTS Deep
VARIABLE c
GInit == c \in Plan(Deep) /\ seen = <<>>
GNext == UNCHANGED <<c, seen>>
Emit == PrintT("@@CASE " \o ToJson([cfg |-> c, bounds |-> BoundForms, lowers |-> LowerForms, widths |-> WidthForms]))
====

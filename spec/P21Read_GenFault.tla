---- MODULE P21Read_GenFault ----
(* C03 case space: fault class x attribute kind x parameter position x position of the faulty instance in the file *)
EXTENDS P21Read, TLC, Json
CONSTANTS Deep      \* TRUE: all positions and file places; FALSE: a covering subset
Pos == IF Deep THEN 1..3 ELSE {2}
Places == IF Deep THEN {"first", "middle", "last"} ELSE {"middle", "last"}
C(cl, k, p, lit, pl) == [class |-> cl, kind |-> k, pos |-> p, lit |-> lit, place |-> pl, region |-> Region(cl)]
Cases ==
  {C(cl, k, 0, "", pl) : cl \in {"few", "many"}, k \in Kinds, pl \in Places}
  \cup {C("wrongkind", k, p, lit, pl) : k \in Kinds, p \in Pos, lit \in UNION {WrongLits(kk) : kk \in Kinds}, pl \in {"middle"}}
  \cup {C(cl, "", 0, "", pl) : cl \in {"unknown_kw", "abstract_kw", "value_for_derived", "dup_id"}, pl \in Places}
  \* an unknown keyword as one part of an externally mapped instance whose other parts are a legal combination
  \cup {C("unknown_kw", "complex", p, "", pl) : p \in 1..3, pl \in Places}
  \cup {C("bad_enum", k, p, v, pl) : k \in {"enum", "bool", "log"}, p \in Pos, v \in {"unrelated", "prefix", "extension", "inner"}, pl \in Places}
  \cup {C("star_not_derived", k, p, "", pl) : k \in Kinds, p \in Pos, pl \in {"middle"}}
  \cup {C("missing_aggr", k, p, "", pl) : k \in {"li", "lr"}, p \in Pos, pl \in Places}
  \cup {C(cl, k, p, "", pl) : cl \in {"dangling_ref", "wrongtype_ref"}, k \in {"ref", "lr", "sel"}, p \in Pos, pl \in Places}
  \cup {C("select_outside", "sel", p, lit, pl) : p \in Pos, lit \in {"typed_enum", "typed_unknown"}, pl \in Places}
  \cup {C("unterminated_inst", k, 0, "", pl) : k \in {"int", "str", "ref"}, pl \in {"first", "middle"}}
  \cup {C("unterminated_str", "str", p, "", pl) : p \in Pos, pl \in {"first", "middle", "last"}}
Valid(c) == c.class = "wrongkind" => c.lit \in WrongLits(c.kind)
VARIABLE c
Init == c \in {x \in Cases : Valid(x)}
Next == UNCHANGED c
Emit == PrintT("@@CASE " \o ToJson(c))
====

-------------------------------- MODULE Runs --------------------------------
(***************************************************************************)
(* Histories of tool runs (property C12): exp2cxx, exp2python, exppp and    *)
(* the schema scanner are functions of the EXPRESS text alone.  A run is    *)
(* [tool, input, cfg, out] where cfg = [aslr, cwd, path, env, pos] is the   *)
(* configuration it ran under and out the digest of its output tree.        *)
(***************************************************************************)
EXTENDS Integers, Sequences, FiniteSets

(* aslr: address-space randomisation; cwd / path: where the tool runs and how the input is named; env: size of the  *)
(* environment block (moves the stack); locale: LC_ALL; heap: allocator layout (glibc tunables that change where   *)
(* blocks land, so that a number read from a pointer or from freed memory changes)                                  *)
Cfgs == [aslr : {"on", "off"}, cwd : {"short", "long/deeper/dir"}, path : {"abs", "rel", "dotted"}, env : {"small", "big"},
         locale : {"C", "C.UTF-8"}, heap : {"default", "mmap", "perturb"},
         \* prior: what the output directory has seen before this run - nothing, or a complete earlier run of the same
         \* tool on the same input (whose files the tool has to replace, not extend)
         prior : {"none", "same"}]
Base == [aslr |-> "on", cwd |-> "short", path |-> "abs", env |-> "small", locale |-> "C", heap |-> "default", prior |-> "none"]
(* configurations that differ from the base in exactly one coordinate, and the all-different one *)
OneOff == {c \in Cfgs : Cardinality({k \in DOMAIN Base : c[k] # Base[k]}) = 1}
Far == [aslr |-> "off", cwd |-> "long/deeper/dir", path |-> "dotted", env |-> "big", locale |-> "C.UTF-8", heap |-> "perturb", prior |-> "same"]

(* expression forms an aggregate bound, a string / binary width or a real precision may take: only a literal is a    *)
(* number the generator may print; every other form has to be printed as text (or evaluated), never read as a number *)
BoundForms == <<"3", "kn", "-kn", "2 + 1", "kn * 2", "kn - 1", "(kn)", "cntb", "-cntb", "cntb + kn", "fb(3)", "-fb(3)", "fb(kn)",
                "SIZEOF(lst)", "-SIZEOF(lst)", "ABS(-kn)", "?">>
LowerForms == <<"1", "0", "-1", "-kn", "kn", "-fb(1)", "-(kn)", "1 - kn">>
WidthForms == <<"8", "kn", "kn + 1", "fb(2)", "-kn">>
Plan(deep) == IF deep THEN Cfgs ELSE {Base} \cup OneOff \cup {Far}

VARIABLES seen       \* [<<tool, input>> -> out] for the pairs run so far
Init == seen = <<>>
(* C12: a run of a tool on an input already seen yields the same output tree *)
Functional(tool, input, out) == (<<tool, input>> \in DOMAIN seen) => seen[<<tool, input>>] = out
Record(tool, input, out) == seen' = IF <<tool, input>> \in DOMAIN seen THEN seen
                                    ELSE [p \in DOMAIN seen \cup {<<tool, input>>} |-> IF p = <<tool, input>> THEN out ELSE seen[p]]
=============================================================================

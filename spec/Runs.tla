-------------------------------- MODULE Runs --------------------------------
(***************************************************************************)
(* Histories of tool runs (property C12): exp2cxx, exp2python, exppp and    *)
(* the schema scanner are functions of the EXPRESS text alone.  A run is    *)
(* [tool, input, cfg, out] where cfg = [aslr, cwd, path, env, pos] is the   *)
(* configuration it ran under and out the digest of its output tree.        *)
(***************************************************************************)
EXTENDS Integers, Sequences, FiniteSets

Cfgs == [aslr : {"on", "off"}, cwd : {"short", "long/deeper/dir"}, path : {"abs", "rel", "dotted"}, env : {"small", "big"}]
Base == [aslr |-> "on", cwd |-> "short", path |-> "abs", env |-> "small"]
(* configurations that differ from the base in exactly one coordinate, and the all-different one *)
OneOff == {c \in Cfgs : Cardinality({k \in {"aslr", "cwd", "path", "env"} : c[k] # Base[k]}) = 1}
Far == [aslr |-> "off", cwd |-> "long/deeper/dir", path |-> "dotted", env |-> "big"]
Plan(deep) == IF deep THEN Cfgs ELSE {Base} \cup OneOff \cup {Far}

VARIABLES seen       \* [<<tool, input>> -> out] for the pairs run so far
Init == seen = <<>>
(* C12: a run of a tool on an input already seen yields the same output tree *)
Functional(tool, input, out) == (<<tool, input>> \in DOMAIN seen) => seen[<<tool, input>>] = out
Record(tool, input, out) == seen' = IF <<tool, input>> \in DOMAIN seen THEN seen
                                    ELSE [p \in DOMAIN seen \cup {<<tool, input>>} |-> IF p = <<tool, input>> THEN out ELSE seen[p]]
=============================================================================

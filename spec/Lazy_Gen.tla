---- MODULE Lazy_Gen ----
(* populations for C10 (plain family: reference graphs incl. self loops, cycles, duplicates, forward references, *)
(* complex instances) and for C11 (inverse family: set-valued / subtype referrer / inherited / single-valued /   *)
(* two inverse attributes); references through the inverted attribute, through another attribute, twice.         *)
EXTENDS Lazy, TLC, Json
CONSTANTS Family,   \* "plain" | "inv"
          Deep
I(i, t, x, y) == [id |-> i, ty |-> t, a |-> x, b |-> y]
IdSets == IF Deep THEN {<<1, 2, 3>>, <<30, 10, 20>>} ELSE {<<1, 2, 3>>}
Opt(S) == {<<>>} \cup {<<x>> : x \in S}
Plain ==
  UNION {LET a == ids[1] b == ids[2] c == ids[3] IN
    { IF fwd THEN <<h, I(b, "pnode", n2, <<>>), I(a, "pnode", n1, <<>>)>> ELSE <<I(a, "pnode", n1, <<>>), I(b, "pnode", n2, <<>>), h>> :
        n1 \in Opt({a, b}), n2 \in Opt({a, b}),
        h \in {I(c, "pholder", x, y) : x \in {<<>>, <<a>>, <<a, b>>, <<b, a>>, <<a, a>>}, y \in Opt({a, b})}
              \cup {I(c, "cx", x, y) : x \in Opt({a, b}), y \in Opt({a})},
        fwd \in (IF Deep THEN BOOLEAN ELSE {FALSE}) } : ids \in IdSets}
(* reference cycles whose members make a second reference after the edge that closes the cycle (to an instance  *)
(* outside the cycle, to another member, to themselves), and a referrer of the cycle from outside                *)
Cyc ==
  { <<I(1, "pnode", <<2>>, x1), I(2, "pnode", <<3>>, x2), I(3, "pnode", <<1>>, x3), I(4, "pnode", <<>>, <<>>), I(5, "pholder", <<3>>, y)>> :
      x1 \in Opt({4, 3}), x2 \in Opt({4}), x3 \in Opt({4, 3}), y \in Opt({1}) }
  \cup { <<I(5, "pholder", <<2, 4>>, <<>>), I(4, "pnode", x, <<>>), I(2, "pnode", <<1>>, <<4>>), I(1, "pnode", <<2>>, <<>>)>> : x \in Opt({4, 1}) }
(* an entity that redeclares the reference attribute it inherits (pspecial: SELF\pholder.one : psub) and declares an *)
(* attribute after it: the eager and the lazy reader must agree on where each value stands                          *)
Redecl ==
  { <<I(1, "psub", n1, <<>>), I(2, "psub", n2, <<>>), I(3, "pspecial", x, y), I(4, "pholder", <<1>>, y)>> :
      n1 \in Opt({1, 2}), n2 \in Opt({1}), x \in {<<>>, <<1, 2>>, <<2>>}, y \in Opt({1, 2}) }
SetValued ==
  { <<I(1, t1, <<>>, <<>>), I(2, "inode", <<>>, <<>>), I(3, h1, x1, y1), I(4, h2, x2, y2)>> :
      t1 \in {"inode", "isubnode", "isubsub", "idia", "idl"}, h1 \in {"iholder", "isub", "imulti"}, h2 \in {"iholder", "imulti"},
      x1 \in {<<>>, <<1>>, <<2>>, <<1, 2>>, <<1, 1>>}, y1 \in Opt({1}),
      x2 \in {<<>>, <<1>>, <<2>>, <<1, 2>>, <<1, 1>>}, y2 \in Opt({1}) }
(* a recursive entity: every assignment of parents among three instances, an instance being its own parent included *)
Rec ==
  { <<I(1, "irec", p1, <<>>), I(2, "irec", p2, <<>>), I(3, "irec", p3, <<>>)>> : p1 \in Opt({1, 2, 3}), p2 \in Opt({1, 2}), p3 \in Opt({3, 1}) }
Single ==
  { <<I(1, "ione", <<>>, <<>>), I(2, "ione", <<>>, <<>>), I(3, "ilink", <<t>>, y)>> : t \in {1, 2}, y \in Opt({1, 2}) }
  \cup { <<I(1, "ione", <<>>, <<>>), I(2, "ione", <<>>, <<>>), I(3, "ilink", <<1>>, y), I(4, "ilink", <<2>>, z)>> : y \in Opt({1, 2}), z \in Opt({1}) }
Two ==
  { <<I(1, "itwo", <<>>, <<>>), I(2, "itwo", <<>>, <<>>), I(3, "ipair", <<t>>, y), I(4, "ipair", <<u>>, z)>> :
      t \in {1, 2}, u \in {1, 2}, y \in Opt({1, 2}), z \in Opt({1}) }
Pops == IF Family = "plain" THEN Plain \cup Cyc \cup Redecl ELSE SetValued \cup Single \cup Two \cup Rec
(* every population in one spelling picked by a hash of its shape; a probe subset (and, when Deep, every        *)
(* population) in every layout; string forms rotate with the layout                                            *)
RECURSIVE Weight(_, _)
Weight(q, i) == IF i > Len(q) THEN 0 ELSE q[i].id * i + 3 * Len(q[i].a) + 5 * Len(q[i].b) + (IF q[i].ty \in {"cx", "isub", "isubnode"} THEN 7 ELSE 0) + Weight(q, i + 1)
LayOf(q) == Layouts[(Weight(q, 1) % Len(Layouts)) + 1]
StrOf(q, k) == StrForms[((Weight(q, 1) + k) % Len(StrForms)) + 1]
Probe(q) == \E i \in 1..Len(q) : Len(q[i].a) = 2 /\ q[i].a[1] # q[i].a[2] /\ Len(q[i].b) = 1
Cases == {[pop |-> q, lay |-> LayOf(q), str |-> StrOf(q, 0)] : q \in Pops}
         \cup {[pop |-> q, lay |-> Layouts[k], str |-> StrOf(q, k)] : q \in {r \in Pops : Deep \/ Probe(r)}, k \in 1..Len(Layouts)}
VARIABLE p
Init == p \in Cases
Next == UNCHANGED p
Emit == PrintT("@@CASE " \o ToJson(p))
====

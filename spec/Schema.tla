------------------------------- MODULE Schema -------------------------------
(***************************************************************************)
(* An abstract EXPRESS schema, the family of valid schemas the harness      *)
(* generates, the single-fault mutants of properties C04/C20, and the       *)
(* functions of a schema that the generators must realise (Part 21          *)
(* attribute order, dictionary, file set, Python class shape: C02/C17/C18). *)
(*                                                                         *)
(* schema  == [name, types: Seq(type), ents: Seq(entity), funcs, aux]       *)
(* type    == [name, k: "enum"|"select"|"simple"|"aggr", items, members,    *)
(*             base: typeref]                                               *)
(* typeref == [base: STRING, agg: "none"|"LIST"|"SET"|"BAG"|"ARRAY",        *)
(*             lo, hi (-1 = ?), uniq, optelem]                              *)
(* entity  == [name, supers: Seq(name), abstract, sexpr: tree, attrs:       *)
(*             Seq([name, ty: typeref, opt]), derive, inverse, uniq, where] *)
(***************************************************************************)
EXTENDS Integers, Sequences, FiniteSets

T(b) == [base |-> b, agg |-> "none", lo |-> 0, hi |-> 0, uniq |-> FALSE, optelem |-> FALSE]
Agg(a, lo, hi, b) == [base |-> b, agg |-> a, lo |-> lo, hi |-> hi, uniq |-> FALSE, optelem |-> FALSE]
AggF(a, lo, hi, b, u, o) == [base |-> b, agg |-> a, lo |-> lo, hi |-> hi, uniq |-> u, optelem |-> o]
(* aggregate of aggregates: the element type is itself a typeref (field inner); base is unused *)
AggOf(a, lo, hi, in) == [base |-> "", agg |-> a, lo |-> lo, hi |-> hi, uniq |-> FALSE, optelem |-> FALSE, inner |-> in]
A(n, ty, opt) == [name |-> n, ty |-> ty, opt |-> opt]
NoTree == [k |-> "none"]
Leaf(e) == [k |-> "leaf", e |-> e]
Op(o, kids) == [k |-> o, kids |-> kids]
Range(s) == {s[i] : i \in 1..Len(s)}

(* ------------------------------------------------------------------ valid schema family *)
(* choice record: inh (inheritance shape), sx (supertype expression of the root), abs (root abstract), *)
(* ak (attribute-kind preset), rules (DERIVE / INVERSE / UNIQUE / WHERE / FUNCTION present), aux (second schema) *)
Types0(c) == << [name |-> "colour", k |-> "enum", items |-> <<"red_green", "red", "green", "blue", "blue_ish">>, members |-> <<>>, base |-> T("")],
               [name |-> "lab", k |-> "simple", items |-> <<>>, members |-> <<>>, base |-> T("STRING")],
               [name |-> "cnt", k |-> "simple", items |-> <<>>, members |-> <<>>, base |-> T("INTEGER")],
               [name |-> "pick", k |-> "select", items |-> <<>>, members |-> <<"e1", "lab", "cnt">>, base |-> T("")],
               [name |-> "ilist", k |-> "aggr", items |-> <<>>, members |-> <<>>, base |-> Agg("LIST", 1, 3, "INTEGER")] >>
            \o (IF c.ak = 1 THEN <<>> ELSE
                << [name |-> "colour2", k |-> "rename", items |-> <<>>, members |-> <<>>, base |-> T("colour")],
                   [name |-> "pick2", k |-> "rename", items |-> <<>>, members |-> <<>>, base |-> T("pick")],
                   [name |-> "nest", k |-> "aggr", items |-> <<>>, members |-> <<>>, base |-> AggOf("LIST", 1, 2, AggF("ARRAY", 0, 2, "INTEGER", TRUE, FALSE))],
                   \* a select one of whose items is a select (a value is still written with the keyword of the defined type it has)
                   [name |-> "npick", k |-> "select", items |-> <<>>, members |-> <<"pick", "colour">>, base |-> T("")] >>)
(* the single-entity schema has no select either: nothing in it names the entity but its own declaration          *)
(* "noents": a support schema - no entity, no enumeration, no select, only names for simple types and aggregates  *)
(* (types that generate no class of their own; the per-schema files must exist all the same)                        *)
Types(c) == IF c.inh = "single" THEN SelectSeq(Types0(c), LAMBDA t : t.name \notin {"pick", "pick2", "npick"})
            ELSE IF c.inh = "noents" THEN SelectSeq(Types0(c), LAMBDA t : t.name \in {"lab", "cnt", "ilist", "nest"})
            ELSE Types0(c)
(* (the enumeration declares an item before a proper prefix of it and another after one: a reader that matches    *)
(* item names by prefix, or in declaration order without comparing lengths, confuses them)                         *)
(* type shapes (choice field ts): "base" = the types above only; "aggs" = one named type and one attribute per      *)
(* aggregate form the language allows (UNIQUE on ARRAY and LIST, OPTIONAL on ARRAY, fixed and open bounds, an     *)
(* aggregate of flagged aggregates); "chain" = a defined type, a rename of it and a rename of the rename, for a   *)
(* simple, an enumeration and a select head, under every assignment of three names to the three positions (the    *)
(* generators visit types in hash order of their names, not in declaration order)                                *)
Perm3 == {<<"m1", "m2", "m3">>, <<"m1", "m3", "m2">>, <<"m2", "m1", "m3">>, <<"m2", "m3", "m1">>, <<"m3", "m1", "m2">>, <<"m3", "m2", "m1">>}
TyD(n, k, items, members, base) == [name |-> n, k |-> k, items |-> items, members |-> members, base |-> base]
ChainTypes(of, p) ==
  << CASE of = "simple" -> TyD(p[1], "simple", <<>>, <<>>, T("REAL"))
       [] of \in {"enum", "enumsel"} -> TyD(p[1], "enum", <<"x1", "x2">>, <<>>, T(""))
       [] of = "select" -> TyD(p[1], "select", <<>>, <<"lab", "cnt">>, T("")),
     TyD(p[2], IF of = "simple" THEN "simple" ELSE "rename", <<>>, <<>>, T(p[1])),
     \* "enumsel": the third type is a select that reaches the renamed enumeration (the generator orders enumerations,
     \* their renames and the selects that use them in passes that depend on the hash order of the names)
     IF of = "enumsel" THEN TyD(p[3], "select", <<>>, <<p[2], "lab">>, T(""))
     ELSE TyD(p[3], IF of = "simple" THEN "simple" ELSE "rename", <<>>, <<>>, T(p[2])) >>
AggTypes ==
  << TyD("arr_p", "aggr", <<>>, <<>>, AggF("ARRAY", 0, 2, "INTEGER", FALSE, FALSE)),
     TyD("arr_o", "aggr", <<>>, <<>>, AggF("ARRAY", 0, 2, "INTEGER", FALSE, TRUE)),
     TyD("arr_u", "aggr", <<>>, <<>>, AggF("ARRAY", 0, 2, "INTEGER", TRUE, FALSE)),
     TyD("arr_ou", "aggr", <<>>, <<>>, AggF("ARRAY", 1, 4, "STRING", TRUE, TRUE)),
     TyD("lst_u", "aggr", <<>>, <<>>, AggF("LIST", 0, -1, "REAL", TRUE, FALSE)),
     TyD("lst_p", "aggr", <<>>, <<>>, AggF("LIST", 1, 3, "REAL", FALSE, FALSE)),
     TyD("set_p", "aggr", <<>>, <<>>, AggF("SET", 2, 5, "STRING", FALSE, FALSE)),
     TyD("bag_p", "aggr", <<>>, <<>>, AggF("BAG", 1, -1, "cnt", FALSE, FALSE)),
     \* named aggregates whose elements are of a select / enumeration type of the schema
     TyD("lst_sel", "aggr", <<>>, <<>>, AggF("LIST", 0, -1, "pick", FALSE, FALSE)),
     TyD("set_enum", "aggr", <<>>, <<>>, AggF("SET", 1, -1, "colour", FALSE, FALSE)) >>
(* two selects that contain each other through named aggregate types (legal: the recursion passes through a LIST)   *)
SelAggTypes ==
  << TyD("la", "aggr", <<>>, <<>>, AggF("LIST", 0, -1, "sb", FALSE, FALSE)), TyD("lb", "aggr", <<>>, <<>>, AggF("LIST", 0, -1, "sa", FALSE, FALSE)),
     TyD("sa", "select", <<>>, <<"la", "lab">>, T("")), TyD("sb", "select", <<>>, <<"lb", "cnt">>, T("")) >>
ExtraTypes(ts) == CASE ts.k = "base" -> <<>> [] ts.k = "aggs" -> AggTypes [] ts.k = "chain" -> ChainTypes(ts.of, ts.names)
                    [] ts.k = "selagg" -> SelAggTypes
ExtraAttrs(ts) ==
  CASE ts.k = "base" -> <<>>
    [] ts.k = "chain" -> <<A("x1", T(ts.names[3]), FALSE), A("x2", T(ts.names[2]), TRUE)>>
    [] ts.k = "selagg" -> <<A("x1", T("sa"), TRUE)>>
    [] ts.k = "aggs" -> <<A("y1", AggF("ARRAY", 1, 3, "lab", TRUE, TRUE), FALSE), A("y2", AggF("LIST", 0, -1, "e1", TRUE, FALSE), FALSE),
                          A("y3", AggF("SET", 0, -1, "colour", FALSE, FALSE), TRUE), A("y4", AggF("BAG", 0, 2, "INTEGER", FALSE, FALSE), FALSE),
                          A("y5", T("arr_ou"), TRUE), A("y6", AggF("ARRAY", 0, 1, "REAL", TRUE, FALSE), FALSE),
                          A("y7", AggOf("LIST", 0, -1, AggF("ARRAY", 0, 2, "INTEGER", TRUE, FALSE)), FALSE),
                          A("y8", T("lst_sel"), TRUE), A("y9", T("set_enum"), TRUE)>>
RootAttrs(ak) ==
  CASE ak = 1 -> <<A("a1", T("INTEGER"), FALSE), A("a2", T("REAL"), TRUE)>>
    [] ak = 2 -> <<A("a1", T("INTEGER"), FALSE), A("a2", T("colour"), FALSE), A("a3", T("lab"), TRUE), A("a4", Agg("LIST", 1, 3, "INTEGER"), FALSE)>>
    [] ak = 3 -> <<A("a1", T("INTEGER"), FALSE), A("a2", T("pick"), TRUE), A("a3", Agg("SET", 0, -1, "STRING"), FALSE), A("a4", T("BOOLEAN"), FALSE),
                   A("a5", T("LOGICAL"), TRUE), A("a6", T("BINARY"), TRUE), A("a7", T("NUMBER"), FALSE), A("a8", T("ilist"), TRUE),
                   A("a9", T("STRING"), FALSE), A("a10", T("REAL"), FALSE), A("a11", T("lab"), FALSE), A("a12", T("npick"), TRUE)>>
Ent(n, sup, abs, sx, attrs) == [name |-> n, supers |-> sup, abstract |-> abs, sexpr |-> sx, attrs |-> attrs,
                                derive |-> <<>>, inverse |-> <<>>, uniq |-> <<>>, where |-> <<>>, redecl |-> <<>>]
Supers(c, e) ==
  CASE c.inh \in {"none", "single", "noents"} -> <<>>
    [] c.inh = "chain" -> IF e = "e2" THEN <<"e1">> ELSE IF e = "e3" THEN <<"e2">> ELSE <<>>
    [] c.inh = "redecl" -> IF e = "e2" THEN <<"e1">> ELSE IF e = "e3" THEN <<"e2">> ELSE IF e = "e4" THEN <<"e3">> ELSE <<>>
    [] c.inh = "multi"   -> IF e = "e2" THEN <<"e1">> ELSE IF e = "e3" THEN <<"e1">> ELSE IF e = "e4" THEN <<"e2", "e3">> ELSE <<>>
    [] c.inh = "fan"     -> IF e \in {"e2", "e3"} THEN <<"e1">> ELSE <<>>
    \* two separate trees joined at the bottom: e2 below e1, e3 below r2, e4 below both; h refers to both roots
    [] c.inh = "tworoots" -> IF e = "e2" THEN <<"e1">> ELSE IF e = "e3" THEN <<"r2">> ELSE IF e = "e4" THEN <<"e2", "e3">> ELSE <<>>
    \* nested multiple inheritance: the two supertypes of e4 are equally deep, the one declared second has more ancestors
    [] c.inh = "nestedmi" -> IF e = "e2" THEN <<"e1">> ELSE IF e = "e3" THEN <<"r2", "r3">> ELSE IF e = "e4" THEN <<"e2", "e3">>
                             ELSE IF e = "e5" THEN <<"e4">> ELSE <<>>
RootExpr(c) ==
  IF c.sx = "none" \/ c.inh \in {"none", "single", "noents", "chain", "redecl", "tworoots", "nestedmi"} THEN NoTree
  ELSE Op(c.sx, <<Leaf("e2"), Leaf("e3")>>)
Names0(c) == IF c.inh = "multi" THEN <<"e1", "e2", "e3", "e4">>
            ELSE IF c.inh = "tworoots" THEN <<"e1", "e2", "r2", "e3", "e4", "h">>
            ELSE IF c.inh = "nestedmi" THEN <<"e1", "e2", "r2", "r3", "e3", "e4", "e5", "h">>
            ELSE IF c.inh = "single" THEN <<"e1">> ELSE IF c.inh = "noents" THEN <<>>
            ELSE IF c.inh = "redecl" THEN <<"e1", "e2", "e3", "e4">> ELSE <<"e1", "e2", "e3">>
(* with rules: also an entity without supertype and without explicit attribute whose only attribute is an INVERSE one *)
(* (tgt0), and the entity it is used by (usr0)                                                                      *)
Names(c) == Names0(c) \o (IF c.rules THEN <<"tgt0", "usr0">> ELSE <<>>)
WithRules(c, e) ==
  IF ~c.rules THEN e
  ELSE IF e.name = "e1" THEN [e EXCEPT !.derive = <<[name |-> "d1", ty |-> T("INTEGER"), expr |-> "a1 + f1(a1)"]>>,
                                       !.inverse = <<[name |-> "inv1", ent |-> "e2", attr |-> "b1", setof |-> TRUE]>>,
                                       !.uniq = <<[label |-> "ur1", attrs |-> <<"a1">>]>>,
                                       !.where = <<[label |-> "wr1", expr |-> "a1 > 0"]>>]
  ELSE IF e.name = "tgt0" THEN [e EXCEPT !.inverse = <<[name |-> "users", ent |-> "usr0", attr |-> "t", setof |-> TRUE]>>]
  ELSE e
(* shape "redecl": the chain e1 <- e2 <- e3 in which e3 redeclares the reference attribute it inherits from e2 with a  *)
(* narrower entity type (SELF\e2.b1 : e2) and declares an attribute of its own after it.  In an exchange file the    *)
(* value still stands at the inherited position; nothing is added to the parameter list.                              *)
(* ... and redeclares the OPTIONAL attribute b2 as a required one (a redeclaration may narrow OPTIONAL away)          *)
WithRedecl(c, e) == IF c.inh = "redecl" /\ e.name = "e3"
                    THEN [e EXCEPT !.redecl = <<[name |-> "b1", of |-> "e2", ty |-> T("e2"), opt |-> FALSE],
                                                [name |-> "b2", of |-> "e2", ty |-> T("STRING"), opt |-> FALSE]>>]
                    \* e4 has no attribute of its own and redeclares e3's last attribute as derived: in an exchange file the
                    \* slot is still there and holds `*` - the parameter list of an e4 instance ends with it
                    ELSE IF c.inh = "redecl" /\ e.name = "e4"
                    THEN [e EXCEPT !.derive = <<[name |-> "SELF\\e3.c1", ty |-> T("BOOLEAN"), expr |-> "TRUE"]>>, !.attrs = <<>>]
                    ELSE e
Valid0(c) ==
  [name |-> "m",
   types |-> Types(c) \o (IF c.inh = "single" THEN SelectSeq(ExtraTypes(c.ts), LAMBDA t : t.name # "lst_sel") ELSE ExtraTypes(c.ts)),
   ents |-> [i \in 1..Len(Names(c)) |->
               LET n == Names(c)[i] IN
               WithRedecl(c, WithRules(c, Ent(n, Supers(c, n), (n = "e1" /\ c.abs /\ c.inh \notin {"none"}), IF n = "e1" THEN RootExpr(c) ELSE NoTree,
                   IF n = "e1" THEN RootAttrs(c.ak)
                   ELSE IF n = "e2" THEN <<A("b1", T("e1"), FALSE), A("b2", T("STRING"), TRUE)>>
                   ELSE IF n = "e3" THEN <<A("c1", T("BOOLEAN"), FALSE)>> \o ExtraAttrs(c.ts)
                   ELSE IF n = "r2" THEN <<A("q1", T("INTEGER"), FALSE)>>
                   ELSE IF n = "r3" THEN <<A("p1", T("STRING"), TRUE)>>
                   ELSE IF n = "e5" THEN <<A("z1", T("INTEGER"), TRUE)>>
                   ELSE IF n = "tgt0" THEN <<>>
                   ELSE IF n = "usr0" THEN <<A("t", T("tgt0"), FALSE)>>
                   ELSE IF n = "h" THEN <<A("h1", T("e1"), FALSE), A("h2", T("r2"), FALSE), A("h3", Agg("LIST", 0, -1, "e1"), FALSE),
                                          A("h4", Agg("LIST", 0, -1, "r2"), TRUE)>>
                   ELSE <<A("g1", T("REAL"), TRUE)>>)))],
   funcs |-> IF c.rules THEN <<[name |-> "f1", nparams |-> 1]>> ELSE <<>>,
   aux |-> c.aux,
   \* aux3: the second schema has the names the first one takes from it only through its own full USE of a third
   aux3 |-> "chain3" \in DOMAIN c]
TypeShapes(deep) == {[k |-> "aggs"], [k |-> "selagg"]} \cup {[k |-> "chain", of |-> o, names |-> p] : o \in {"simple", "enum", "select", "enumsel"},
                                                   p \in (IF deep THEN Perm3 ELSE {<<"m1", "m2", "m3">>, <<"m3", "m1", "m2">>, <<"m2", "m3", "m1">>})}
(* identifiers that are keywords or well-known names of the target languages (C++, Python) or of Part 21 but     *)
(* ordinary identifiers of EXPRESS (choice field nm; applied to a schema without expression texts)                *)
NameMap(nm, x) ==
  IF nm = "cxx" THEN
    CASE x = "e1" -> "class" [] x = "e2" -> "template" [] x = "e3" -> "namespace" [] x = "a1" -> "int" [] x = "a2" -> "delete"
      [] x = "a3" -> "operator" [] x = "a4" -> "this" [] x = "b1" -> "new" [] x = "b2" -> "virtual" [] x = "c1" -> "friend"
      [] x = "lab" -> "char" [] x = "cnt" -> "long" [] x = "colour" -> "enum" [] x = "pick" -> "union" [] x = "ilist" -> "struct"
      [] x = "red" -> "public" [] x = "green" -> "private" [] x = "blue" -> "protected" [] OTHER -> x
  ELSE IF nm = "py" THEN
    CASE x = "e1" -> "def" [] x = "e2" -> "lambda" [] x = "e3" -> "object" [] x = "a1" -> "class" [] x = "a2" -> "import"
      [] x = "a3" -> "pass" [] x = "a4" -> "global" [] x = "b1" -> "None" [] x = "b2" -> "print" [] x = "c1" -> "yield"
      [] x = "lab" -> "str" [] x = "cnt" -> "int" [] x = "colour" -> "del" [] x = "pick" -> "dict" [] x = "ilist" -> "len"
      [] x = "red" -> "raise" [] x = "green" -> "assert" [] x = "blue" -> "except" [] OTHER -> x
  ELSE IF nm = "p21" THEN
    CASE x = "e1" -> "data" [] x = "e2" -> "endsec" [] x = "e3" -> "header" [] x = "a1" -> "iso" [] x = "lab" -> "file_name"
      [] x = "red" -> "t" [] x = "green" -> "f" [] x = "blue" -> "u" [] OTHER -> x
  ELSE IF nm = "us" THEN
    \* underscore shapes: doubled and trailing underscores, digits after an underscore, one-letter names (the
    \* generator and the library each derive class and accessor names from these by their own routines)
    CASE x = "e1" -> "wheel__hub" [] x = "e2" -> "x" [] x = "e3" -> "a_1_b" [] x = "a1" -> "in__ner" [] x = "a2" -> "v_2"
      [] x = "a3" -> "t_" [] x = "a4" -> "q__" [] x = "b1" -> "b_1_" [] x = "b2" -> "z" [] x = "c1" -> "c___1"
      [] x = "lab" -> "lab__el" [] x = "cnt" -> "c_" [] x = "colour" -> "col__our" [] x = "pick" -> "p__k" [] x = "ilist" -> "i_1"
      [] x = "red" -> "r__d" [] x = "green" -> "g_" [] x = "blue" -> "b" [] x = "red_green" -> "r__d_g" [] OTHER -> x
  ELSE x
RECURSIVE RenTree(_, _)
RenTree(nm, t) == IF t.k = "none" THEN t ELSE IF t.k = "leaf" THEN Leaf(NameMap(nm, t.e)) ELSE Op(t.k, [i \in 1..Len(t.kids) |-> RenTree(nm, t.kids[i])])
RenRef(nm, t) == IF "inner" \in DOMAIN t THEN [t EXCEPT !.inner = [@ EXCEPT !.base = NameMap(nm, @)]] ELSE [t EXCEPT !.base = NameMap(nm, @)]
Rename(nm, s) ==
  [s EXCEPT !.types = [i \in 1..Len(@) |-> [@[i] EXCEPT !.name = NameMap(nm, @), !.items = [j \in 1..Len(@) |-> NameMap(nm, @[j])],
                                                      !.members = [j \in 1..Len(@) |-> NameMap(nm, @[j])], !.base = RenRef(nm, @)]],
            !.ents = [i \in 1..Len(@) |-> [@[i] EXCEPT !.name = NameMap(nm, @), !.supers = [j \in 1..Len(@) |-> NameMap(nm, @[j])],
                                                     !.sexpr = RenTree(nm, @),
                                                     !.redecl = [j \in 1..Len(@) |-> [@[j] EXCEPT !.name = NameMap(nm, @), !.of = NameMap(nm, @), !.ty = RenRef(nm, @)]],
                                                     !.attrs = [j \in 1..Len(@) |-> [@[j] EXCEPT !.name = NameMap(nm, @), !.ty = RenRef(nm, @)]]]]]
Valid(c) == IF "nm" \in DOMAIN c THEN Rename(c.nm, Valid0(c)) ELSE Valid0(c)
Choices(deep) ==
  {[inh |-> i, sx |-> s, abs |-> a, ak |-> k, rules |-> r, aux |-> x, ts |-> [k |-> "base"]] :
     i \in (IF deep THEN {"none", "chain", "multi", "fan", "tworoots", "nestedmi"} ELSE {"chain", "multi", "tworoots", "nestedmi"}),
     s \in (IF deep THEN {"none", "oneof", "andor"} ELSE {"none", "oneof"}),
     a \in (IF deep THEN BOOLEAN ELSE {FALSE}), k \in (IF deep THEN 1..3 ELSE {2, 3}), r \in BOOLEAN,
     x \in BOOLEAN}
  \cup {[inh |-> "chain", sx |-> "none", abs |-> FALSE, ak |-> 2, rules |-> FALSE, aux |-> FALSE, ts |-> t] : t \in TypeShapes(deep)}
  \* three schemas: m takes remote_e / remote_t from aux by name, aux has them only because it USEs aux2 as a whole
  \cup {[inh |-> "chain", sx |-> "none", abs |-> FALSE, ak |-> 2, rules |-> r, aux |-> TRUE, ts |-> [k |-> "base"], chain3 |-> TRUE] : r \in BOOLEAN}
  \cup {[inh |-> "redecl", sx |-> "none", abs |-> FALSE, ak |-> k, rules |-> FALSE, aux |-> FALSE, ts |-> [k |-> "base"]] : k \in {2, 3}}
  \cup {[inh |-> "noents", sx |-> "none", abs |-> FALSE, ak |-> 2, rules |-> FALSE, aux |-> FALSE, ts |-> [k |-> "base"]]}
  \* a schema with exactly one entity (and the named types, among them aggregates): whatever the generators keep
  \* per "previous entity" or per "first entity" has only this one to work with
  \cup {[inh |-> "single", sx |-> "none", abs |-> FALSE, ak |-> k, rules |-> FALSE, aux |-> FALSE, ts |-> t] :
          k \in {2}, t \in {[k |-> "base"], [k |-> "aggs"]}}
  \cup {[inh |-> i, sx |-> "oneof", abs |-> FALSE, ak |-> 2, rules |-> FALSE, aux |-> FALSE, ts |-> [k |-> "base"], nm |-> n] :
          i \in {"chain", "fan"}, n \in {"cxx", "py", "p21", "us"}}

(* ------------------------------------------------------------------ single-fault mutants (C04, C20) *)
(* [class, at: index of the entity/type concerned, lexeme: the offending name a diagnostic should quote ("" = none), *)
(*  code: diagnostic family expected ("" = any error)]                                                             *)
M(cl, at, lx, code) == [class |-> cl, at |-> at, lexeme |-> lx, code |-> code, pos |-> "", stretch |-> 0]
(* an undefined name can stand at any operand position of an expression; the resolver treats the operands of    *)
(* relational operators, of IN / LIKE, of intervals, of function calls, of QUERY and of unary operators by      *)
(* separate code, so every one of them is a mutant of its own (DERIVE and WHERE context)                        *)
UndefRefPos == {"where_left_rel", "where_right_rel", "where_arith", "derive_left_rel", "derive_right_rel", "derive_plain",
                "derive_in_left", "derive_in_right", "derive_eq_left", "derive_insteq_left", "derive_interval", "derive_neg",
                "derive_query", "derive_like_left", "derive_arith_left", "derive_aggr_init", "derive_builtin_arg",
                "derive_index", "derive_group", "rule_left_rel", "func_local_left_rel",
                \* expressions inside type specifications: widths, precisions and bounds
                "type_string_width", "type_binary_width", "type_real_precision", "type_aggr_bound", "attr_string_width",
                "attr_aggr_bound", "local_string_width"}
Mutants(c) ==
  {M("syntax_semicolon", at, "", "") : at \in 1..2}
  \cup {M("syntax_keyword", at, "", "") : at \in 1..2}
  \cup {M("undef_type", at, "nosuch_t", "UNDEFINED_TYPE") : at \in 1..2}
  \cup {M("undef_supertype", 2, "nosuch_e", "UNKNOWN_SUPERTYPE")}
  \cup (IF RootExpr(c).k # "none" THEN {M("undef_subtype", 1, "nosuch_e", "UNKNOWN_SUBTYPE"), M("subtype_not_listing", 1, "", "MISSING_SUPERTYPE")} ELSE {})
  \cup {M("undef_schema", 0, "nosuch_s", "UNDEFINED_SCHEMA")}
  \cup (IF c.rules THEN {M("undef_function", 1, "nosuch_f", "UNDEFINED_FUNC"), M("undef_attr_where", 1, "nosuch_a", "UNDEFINED"),
                         M("undef_attr_inverse", 1, "nosuch_a", "INVERSE_BAD_ATTR"), M("undef_attr_unique", 1, "nosuch_a", "")} ELSE {})
  \cup {M("dup_entity", at, Names(c)[at], "DUPLICATE_DECL") : at \in 1..2}
  \cup {M("dup_attr", 1, "a1", "DUPLICATE_DECL"), M("dup_type_entity", 1, "e1", "DUPLICATE_DECL")}
  \cup (IF c.inh # "none" THEN {M("subtype_cycle", 1, "", "SUBSUPER_LOOP"), M("inherited_redeclared", 2, "a1", "OVERLOADED_ATTR")} ELSE {})
  \* a supertype that names, in its SUPERTYPE OF expression, an entity which inherits it only through an intermediate
  \* subtype (the named entity does not list it, although it is an ancestor)
  \cup (IF c.inh = "chain" THEN {[M("subtype_not_listing", 1, "", "MISSING_SUPERTYPE") EXCEPT !.pos = "indirect"]} ELSE {})
  \* an attribute name taken from a supertype that is not a direct one (the grandparent), and an inherited name taken
  \* again by a derived attribute
  \cup (IF c.inh = "chain" THEN {[M("inherited_redeclared", 3, "a1", "OVERLOADED_ATTR") EXCEPT !.pos = "indirect"]} ELSE {})
  \cup (IF c.inh # "none" THEN {[M("inherited_redeclared", 2, "a1", "OVERLOADED_ATTR") EXCEPT !.pos = "derive"]} ELSE {})
  \* the fault sits in a schema that the main schema only uses (the resolver has to get there through the interface)
  \cup (IF c.aux THEN {[M(cl[1], 0, cl[2], cl[3]) EXCEPT !.pos = "in_used_schema"] :
                          cl \in {<<"undef_type", "nosuch_t", "UNDEFINED_TYPE">>, <<"undef_supertype", "nosuch_e", "UNKNOWN_SUPERTYPE">>,
                                  <<"select_cycle", "", "SELECT_LOOP">>}} ELSE {})
  \* INCLUDE of a file that does not exist, once and more often than the scanner has buffers
  \cup {[M("include_missing", 0, "nosuch_file.exp", "INCLUDE_FILE") EXCEPT !.pos = p] : p \in {"once", "forty"}}
  \* a name taken from a schema that has it neither itself nor through the schemas it USEs, which USE each other in a circle
  \cup {[M("undef_use_item", 0, "nosuch_e", "REF_NONEXISTENT") EXCEPT !.pos = "circular_use"]}
  \* defined types that rename each other in a circle (two, three, one): there is no underlying type
  \cup {[M("type_cycle", 0, "", "CIRCULAR_REFERENCE") EXCEPT !.pos = p] : p \in {"two", "three", "self", "two_used"}}
  \cup {M("select_cycle", 0, "", "SELECT_LOOP")}
  \* the same cycle with entity members, and an expression that has to look through the cyclic select (attribute  \*
  \* access and group qualification on a value of that type), entity member before or after the select member
  \cup {[M("select_cycle", 0, "", "SELECT_LOOP") EXCEPT !.pos = p] : p \in {"entity_first_dot", "select_first_dot", "entity_first_group", "three_dot"}}
  \* (an attribute named after a group qualifier is looked up in that entity: the diagnostic is the one for unknown attributes)
  \* a cycle of selects and a select outside the cycle that has a member of it as an item; the resolver walks the types in the
  \* hash order of their names, so the outside select is tried under several names
  \cup {[M("select_cycle", 0, "", "SELECT_LOOP") EXCEPT !.pos = "outside:" \o n] :
          n \in {"picked_item", "any_item", "a0", "zz9", "m_outer", "geometry_item", "b_sel", "outer_choice"}}
  \cup {[M("undef_ref", 1, "nosuch_a", IF p = "derive_group" THEN "UNKNOWN_ATTR_IN_ENTITY" ELSE "UNDEFINED") EXCEPT !.pos = p] : p \in UndefRefPos}

(* lexical mutants (C20): the offending character / identifier / count must be the one quoted *)
(* the same faults with the offending name made long (stretch: that many characters are appended to it wherever it  *)
(* occurs): a diagnostic must quote the whole name, and what follows the name in the message, whatever its length    *)
Stretched(c) == {[m EXCEPT !.stretch = k] : m \in {x \in Mutants(c) : x.class \in {"undef_type", "dup_entity", "undef_supertype", "undef_function", "undef_schema"} /\ x.pos = ""},
                                             k \in {150, 400}}
                \cup {[M("lex_underscore_ident", 1, "_bad", "BAD_IDENTIFIER") EXCEPT !.stretch = 200], [M("argcount", 1, "f1x", "WRONG_ARG_COUNT") EXCEPT !.stretch = 180]}
LexMutants ==
  {M("lex_underscore_ident", 1, "_bad", "BAD_IDENTIFIER"), M("lex_nonascii", 1, "0xe9", "NONASCII_CHAR"), M("argcount", 1, "f1x", "WRONG_ARG_COUNT"),
   \* the function named without an argument list at all
   [M("argcount", 1, "f1x", "WRONG_ARG_COUNT") EXCEPT !.pos = "noargs"]}
  \* the quoted value is the one of the input, whatever it is: each character that is no lexical element, a digit that
  \* is not hexadecimal at the first / a middle / the last place, digit counts below and above one and two groups of eight
  \cup {[M("lex_unexpected_char", 1, ch, "UNEXPECTED_CHARACTER") EXCEPT !.pos = ch] : ch \in {"~", "@", "^", "$", "&"}}
  \cup {[M("lex_bad_hex_digit", 1, d[1], "ENCODED_STRING_BAD_DIGIT") EXCEPT !.pos = d[2]] : d \in {<<"G", "last">>, <<"x", "first">>, <<"Z", "middle">>, <<"g", "second_group">>}}
  \cup {[M("lex_bad_hex_count", 1, k, "ENCODED_STRING_BAD_COUNT") EXCEPT !.pos = k] : k \in {"6", "9", "14", "23", "1"}}

(* ------------------------------------------------------------------ files the C++ generator writes (C17) *)
(* one header/implementation pair per entity, per enumeration and per select that is declared with its own items / *)
(* member list; simple, aggregate and renamed (TYPE t2 = t1) types get none; plus the fixed per-schema files       *)
Files(s) == {[k |-> "entity", name |-> s.ents[i].name] : i \in 1..Len(s.ents)}
            \cup {[k |-> s.types[i].k, name |-> s.types[i].name] : i \in {j \in 1..Len(s.types) : s.types[j].k \in {"enum", "select"}}}

(* ------------------------------------------------------------------ the run-time dictionary (C02) *)
SubsOf(s, n) == {s.ents[i].name : i \in {j \in 1..Len(s.ents) : n \in Range(s.ents[j].supers)}}
DictEntity(s, e) == [name |-> e.name, abstract |-> e.abstract, supers |-> e.supers, subs |-> SubsOf(s, e.name),
                     attrs |-> [i \in 1..Len(e.attrs) |-> [name |-> e.attrs[i].name, opt |-> e.attrs[i].opt, ty |-> e.attrs[i].ty]],
                     derived |-> [i \in 1..Len(e.derive) |-> [name |-> e.derive[i].name, ty |-> e.derive[i].ty]],
                     redeclared |-> [i \in 1..Len(e.redecl) |-> [name |-> e.redecl[i].name, of |-> e.redecl[i].of, ty |-> e.redecl[i].ty]],
                     inverse |-> [i \in 1..Len(e.inverse) |-> [name |-> e.inverse[i].name, ent |-> e.inverse[i].ent,
                                                               attr |-> e.inverse[i].attr, setof |-> e.inverse[i].setof]]]
(* (former deviations of the generator, repaired in /repo: a renamed enumeration and a named aggregate of         *)
(* aggregates got no dictionary entry; Dev_NestedAggrNotRegistered is kept so that the deviation is named should *)
(* it return, but it is no longer listed as a known finding)                                                      *)
TypeByName(s, n) == s.types[CHOOSE i \in 1..Len(s.types) : s.types[i].name = n]
RECURSIVE RootKind(_, _)
RootKind(s, t) == IF t.k = "rename" THEN RootKind(s, TypeByName(s, t.base.base)) ELSE t.k
Dev_NestedAggrNotRegistered(s, t) == t.k = "aggr" /\ t.name = "nest"      \* the family's only named aggregate of aggregates
Dictionary(s) == [entities |-> [i \in 1..Len(s.ents) |-> DictEntity(s, s.ents[i])], types |-> s.types]

(* ------------------------------------------------------------------ Part 21 attribute order (C02, C18) *)
EntByName(s, n) == s.ents[CHOOSE i \in 1..Len(s.ents) : s.ents[i].name = n]
RECURSIVE RawOrder(_, _)
RawOrder(s, n) == LET e == EntByName(s, n)
                      RECURSIVE Cat(_)
                      Cat(i) == IF i > Len(e.supers) THEN <<>> ELSE RawOrder(s, e.supers[i]) \o Cat(i + 1)
                  IN Cat(1) \o [j \in 1..Len(e.attrs) |-> [owner |-> n, name |-> e.attrs[j].name]]
RECURSIVE Dedup(_)
Dedup(q) == IF q = <<>> THEN <<>>
            ELSE LET rest == Dedup(SubSeq(q, 1, Len(q) - 1))
                     x == q[Len(q)]
                 IN IF \E i \in 1..Len(rest) : rest[i] = x THEN rest ELSE Append(rest, x)
(* inherited-then-own explicit attributes: depth first over the supertypes in declaration order, each once *)
AttrOrder(s, n) == Dedup(RawOrder(s, n))

(* ------------------------------------------------------------------ the Python module (C18) *)
(* one class per entity: bases = supertypes in declaration order, constructor parameters = AttrOrder; one *)
(* definition per defined type                                                                            *)
(* a name that is a reserved word of Python cannot be used as it stands: the generator appends an underscore      *)
PyKeywords == {"False", "None", "True", "and", "as", "assert", "async", "await", "break", "class", "continue", "def", "del", "elif",
               "else", "except", "finally", "for", "from", "global", "if", "import", "in", "is", "lambda", "nonlocal", "not", "or",
               "pass", "raise", "return", "try", "while", "with", "yield", "property"}
PyName(n) == IF n \in PyKeywords THEN n \o "_" ELSE n
(* Dev_PyKeywordUnescaped (known finding): the generator knows only three of these words (class, pass, property) and    *)
(* escapes them at some of the places where a name is written; a schema that uses another reserved word as an        *)
(* identifier yields a module that Python cannot compile                                                             *)
PyEscaped == {"class", "pass", "property"}
NamesOf(s) == {s.ents[i].name : i \in 1..Len(s.ents)} \cup UNION {{s.ents[i].attrs[j].name : j \in 1..Len(s.ents[i].attrs)} : i \in 1..Len(s.ents)}
              \cup {s.types[i].name : i \in 1..Len(s.types)} \cup UNION {{s.types[i].items[j] : j \in 1..Len(s.types[i].items)} : i \in 1..Len(s.types)}
Dev_PyKeywordUnescaped(s) == NamesOf(s) \cap (PyKeywords \ PyEscaped) # {}
PyModule(s) == [classes |-> [i \in 1..Len(s.ents) |->
                               [name |-> PyName(s.ents[i].name), bases |-> [j \in 1..Len(s.ents[i].supers) |-> PyName(s.ents[i].supers[j])],
                                params |-> [j \in 1..Len(AttrOrder(s, s.ents[i].name)) |-> PyName(AttrOrder(s, s.ents[i].name)[j].name)]]],
                types |-> [i \in 1..Len(s.types) |-> [s.types[i] EXCEPT !.name = PyName(@), !.items = [j \in 1..Len(@) |-> PyName(@[j])],
                                                                       !.members = [j \in 1..Len(@) |-> PyName(@[j])],
                                                                       !.base = [@ EXCEPT !.base = PyName(@)]]]]
(* Dev_PyCtorRepeatsSharedAncestor: the constructor lists the inherited attributes once per supertype path, so an *)
(* entity with two supertypes that share an ancestor (a diamond) names the ancestor's attributes twice            *)
RECURSIVE Ancestors(_, _)
Ancestors(s, n) == LET e == EntByName(s, n) IN Range(e.supers) \cup UNION {Ancestors(s, e.supers[i]) : i \in 1..Len(e.supers)}
Dev_PyCtorRepeatsSharedAncestor(s, n) ==
  LET e == EntByName(s, n) IN
  \E i, j \in 1..Len(e.supers) : i # j /\ (Ancestors(s, e.supers[i]) \cup {e.supers[i]}) \cap (Ancestors(s, e.supers[j]) \cup {e.supers[j]}) # {}
(* Dev_PyRedeclaredIsOwnParameter: a redeclared attribute (SELF\e2.b1 : e2) is generated like an attribute of the       *)
(* redeclaring entity: the constructor takes it once more, after the inherited parameters and before the entity's own,  *)
(* so the parameter list is not the Part 21 order.  PyRedeclParams predicts the exact list.                              *)
RECURSIVE HasRedecl(_, _), PyCtorRaw(_, _)
HasRedecl(s, n) == LET e == EntByName(s, n) IN Len(e.redecl) > 0 \/ \E i \in 1..Len(e.supers) : HasRedecl(s, e.supers[i])
(* (the deviation is inherited: a subclass hands its base the base's whole parameter list) *)
Dev_PyRedeclaredIsOwnParameter(s, n) == HasRedecl(s, n)
PyCtorRaw(s, n) == LET e == EntByName(s, n)
                       RECURSIVE Cat(_)
                       Cat(i) == IF i > Len(e.supers) THEN <<>> ELSE PyCtorRaw(s, e.supers[i]) \o Cat(i + 1)
                   IN Cat(1) \o [j \in 1..Len(e.redecl) |-> PyName(e.redecl[j].name)] \o [j \in 1..Len(e.attrs) |-> PyName(e.attrs[j].name)]
PyRedeclParams(s, n) == PyCtorRaw(s, n)
=============================================================================

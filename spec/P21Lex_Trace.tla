---- MODULE P21Lex_Trace ----
(* monitor: recorded reads and writes of literals judged by P21Lex *)
EXTENDS P21Lex, TLC, Json, IOUtils
VARIABLE l
TraceLog == ndJsonDeserialize(IOEnv.TRACE)
Ev == TraceLog[l]
Report(what) == PrintT("@@CASE " \o ToJson([line |-> l, what |-> what, ev |-> Ev]))
Step(e) == l <= Len(TraceLog) /\ Ev.e = e /\ l' = l + 1
TRead == /\ Step("Read")
         /\ LET v == Verdict(InGrammar(Ev.kind, Ev.w), Ev.repr, InGrammar(Ev.kind, Norm(Ev.kind, Ev.w)), Ev.sev, Ev.null, Ev.valok) IN
            (v # "ok") => Report(v)
         /\ (~OpenQuote(Ev.kind, Ev.w) /\ Ev.next # Ev.delim) => Report("delimiter-consumed")
(* the writer renders a representable value as a canonical token of the grammar that reads back to the same value *)
TWrite == /\ Step("Write")
          /\ (~WriterForm(Ev.kind, Ev.w)) => Report("written-token-not-canonical")
          /\ (~Ev.readsback) => Report("written-token-reads-back-differently")
TInit == l = 1
TNext == TRead \/ TWrite
TraceAccepted == TLCGet("stats").diameter - 1 = Len(TraceLog)
====

---- MODULE Runs_Trace ----
EXTENDS Runs, TLC, Json, IOUtils
VARIABLE l
TraceLog == ndJsonDeserialize(IOEnv.TRACE)
Ev == TraceLog[l]
TRun == /\ l <= Len(TraceLog) /\ Ev.e = "Run" /\ l' = l + 1
        /\ (~Functional(Ev.tool, Ev.input, Ev.out)) => PrintT("@@CASE " \o ToJson([line |-> l, what |-> "output-differs", ev |-> Ev]))
        /\ (Ev.foreign) => PrintT("@@CASE " \o ToJson([line |-> l, what |-> "foreign-data-in-output", ev |-> Ev]))
        /\ Record(Ev.tool, Ev.input, Ev.out)
TInit == Init /\ l = 1
TNext == TRun
TraceAccepted == TLCGet("stats").diameter - 1 = Len(TraceLog)
====

---- MODULE Lazy_Trace ----
(* monitor: recorded lazy-loader sessions (open, dependency queries, loads in some order) judged by Lazy *)
EXTENDS Lazy, TLC, Json, IOUtils
VARIABLES l, P, nClean, nTaint, taint   \* nClean: loads judged; (nTaint, taint: unused since the re-entrancy defect F-10a was repaired -
                         \* every load, whatever it traverses, is judged in full)
TraceLog == ndJsonDeserialize(IOEnv.TRACE)
Ev == TraceLog[l]
Report(what, dev) == PrintT("@@CASE " \o ToJson([line |-> l, what |-> what, dev |-> dev, ev |-> Ev]))
Step(e) == l <= Len(TraceLog) /\ Ev.e = e /\ l' = l + 1
PairsOf(t) == UNION {{<<t[i][1], t[i][2][j]>> : j \in 1..Len(t[i][2])} : i \in 1..Len(t)}
TGiven == Step("Given") /\ P' = Ev.pop /\ taint' = FALSE /\ UNCHANGED <<nClean, nTaint>>
(* index = ids (and keywords of simple instances) of the file; fwd = references; rev = transpose of fwd *)
TOpen == /\ Step("Open") /\ UNCHANGED <<P, taint, nClean, nTaint>>
         /\ ({Ev.index[i][1] : i \in 1..Len(Ev.index)} # IdsOf(P) \/ Len(Ev.index) # Len(P)) => Report("index-ids", "")
         /\ (\E i \in 1..Len(Ev.index) : Ev.index[i][1] \in IdsOf(P) /\ Inst(P, Ev.index[i][1]).ty # "cx"
                                        /\ Ev.index[i][2] # Inst(P, Ev.index[i][1]).ty) => Report("index-keyword", "")
         /\ (PairsOf(Ev.fwd) # FwdRel(P)) => Report("fwd", "")
         /\ (PairsOf(Ev.rev) # RevRel(P)) => Report("rev", "")
         /\ (PairsOf(Ev.rev) # {<<p[2], p[1]>> : p \in PairsOf(Ev.fwd)}) => Report("rev-not-transpose", "")
TDeps == /\ Step("Deps") /\ UNCHANGED <<P, taint, nClean, nTaint>>
         /\ LET got == {Ev.set[i] : i \in 1..Len(Ev.set)} IN
            (got \ {Ev.id} # Deps(P, Ev.id) \ {Ev.id}) => Report("deps", "")
(* loading yields the eagerly read object (same serialisation); inverse attributes hold exactly the referrers *)
TLoad == /\ Step("Load") /\ UNCHANGED P /\ taint' = FALSE
         /\ nClean' = nClean + (IF taint' THEN 0 ELSE 1) /\ nTaint' = nTaint + (IF taint' THEN 1 ELSE 0)
         /\ (~Ev.ok \/ ~Ev.same) => Report("load-differs", "")
         /\ Ev.ok => \A d \in InvDecl(Inst(P, Ev.id).ty) :
               LET got == IF \E k \in 1..Len(Ev.inv) : Ev.inv[k].name = d.name
                          THEN (LET k == CHOOSE k \in 1..Len(Ev.inv) : Ev.inv[k].name = d.name IN Ev.inv[k].ids) ELSE <<>>
                   want == Referrers(P, Ev.id, d)
               IN (Range(got) # want \/ Len(got) # Cardinality(want)) =>
                     Report("inverse:" \o d.name, "")
(* the loader died (signal) or ran away while loading *)
TCrash == /\ Step("Crash") /\ UNCHANGED <<P, taint, nClean, nTaint>>
          /\ Report("crash", "")
(* end of record: report how many loads were judged in full and how many fell under the known re-entrancy *)
TEnd == Step("End") /\ UNCHANGED <<P, taint, nClean, nTaint>>
        /\ PrintT("@@CASE " \o ToJson([line |-> l, what |-> "stats", dev |-> "", ev |-> [clean |-> nClean, tainted |-> nTaint]]))
TInit == l = 1 /\ P = <<>> /\ taint = FALSE /\ nClean = 0 /\ nTaint = 0
TNext == TGiven \/ TOpen \/ TDeps \/ TLoad \/ TCrash \/ TEnd
TraceAccepted == TLCGet("stats").diameter - 1 = Len(TraceLog)
====

---- MODULE Expr_Gen ----
(* expression cases for C07: every pair of binary operators in both nestings (precedence and associativity), unary *)
(* operators over binary ones, every literal kind, aggregates with repetition, intervals, function calls            *)
EXTENDS Expr, TLC, Json
CONSTANTS Deep
NumOps == {"+", "-", "*", "/", "**", "DIV", "MOD"}
RelOps == IF Deep THEN {"=", "<>", "<=", ">=", "<", ">", ":=:", ":<>:"} ELSE {"=", "<", ">=", ":<>:"}
LogOps == {"AND", "OR", "XOR"}
A == Lit("id", "a1")
B == Lit("id", "a7")
One == Lit("int", "1")
Two == Lit("int", "2")
R == Lit("real", "2.5")
NumLeaves == {A, B, One, R}
(* numeric expressions: both nestings of every operator pair *)
Num2 == {Bin(o2, Bin(o1, A, One), R) : o1 \in NumOps, o2 \in NumOps} \cup {Bin(o1, A, Bin(o2, One, R)) : o1 \in NumOps, o2 \in NumOps}
        \cup {Un("-", Bin(o, A, One)) : o \in NumOps} \cup {Bin(o, Un("-", A), One) : o \in NumOps}
        \cup {Call("f1", <<Bin(o, A, One)>>) : o \in {"+", "*"}} \cup {Call("ABS", <<A>>)}
        \cup {Bin("*", Bin("+", A, One), Bin("-", B, R)), Bin("-", A, Bin("-", B, One)), Bin("/", A, Bin("/", B, Two))}
        \* a sign directly before a sign (two minus signs in a row would start a remark), signs after binary operators
        \cup {Un("-", Un("-", Lit("int", "5"))), Un("-", Un("-", R)), Un("-", Un("-", A)), Bin("-", A, Un("-", One)), Bin("*", A, Un("-", Two)),
               Bin("-", Un("-", One), Un("-", Un("-", Two))), Call("f1", <<Un("-", Un("-", Two))>>), Bin("+", A, Un("+", One))}
        \cup {Lit("real", v) : v \in {"0.0", "1.5E3", "1.0E-10", "2.", "100000.0"}} \cup {Lit("int", v) : v \in {"0", "2147483647"}}
NumCases == {[kind |-> "num", e |-> x] : x \in Num2}
(* boolean expressions *)
Rel(o) == Bin(o, A, One)
Bool2 == {Bin(o, A, Bin("+", One, R)) : o \in RelOps} \cup {Bin(o, Bin("*", A, Two), One) : o \in RelOps}
         \cup {Bin(l2, Bin(l1, Rel("<"), Rel("=")), Rel(">=")) : l1 \in LogOps, l2 \in LogOps}
         \cup {Bin(l1, Rel("<"), Bin(l2, Rel("="), Rel(">="))) : l1 \in LogOps, l2 \in LogOps}
         \cup {Un("NOT", Bin(l, Rel("<"), Rel("="))) : l \in LogOps} \cup {Bin(l, Un("NOT", Rel("<")), Rel("=")) : l \in LogOps}
         \cup {Interval(One, "<=", A, "<", Bin("+", Two, One)), Interval(Un("-", One), "<", A, "<=", R)}
         \* relational operators do not associate: a comparison that is an operand of a comparison keeps its parentheses
         \cup {Bin(o1, Rel(o2), Rel("<")) : o1 \in {"=", "<>"}, o2 \in {"=", ">="}} \cup {Bin("=", Rel("<"), Lit("id", "TRUE")), Bin("=", Lit("id", "TRUE"), Rel("<"))}
         \cup {Un("NOT", Un("NOT", Rel("<")))}
         \* QUERY (alone, nested, as an operand), and qualifiers: attribute of SELF, group qualification, index
         \cup {Bin(">", Call("SIZEOF", <<Query("x", Agg(<<One, Two>>), Bin(">", Lit("id", "x"), A))>>), Lit("int", "0")),
               Bin("=", Call("SIZEOF", <<Query("x", Lit("id", "a9"), Bin(">", Call("SIZEOF", <<Query("y", Lit("id", "a9"), Bin("=", Lit("id", "y"), Lit("id", "x")))>>), One))>>), Lit("int", "0")),
               Bin(">", Dot(Lit("id", "SELF"), "a1"), Lit("int", "0")),
               Bin(">", Dot(Group(Lit("id", "SELF"), "host"), "a1"), One), Bin("=", Index(Lit("id", "a9"), Bin("+", One, One)), Two),
               Bin("IN", Index(Lit("id", "a9"), One), Agg(<<Index(Lit("id", "a9"), Two)>>))}
         \cup {Bin("IN", A, Agg(<<One, Two, Bin("+", One, Two)>>)), Bin("IN", A, Agg(<<Rep(One, Two), Two>>)), Bin("IN", A, Agg(<<One, One, Two>>)),
               \* a repetition count need not be a literal; and the literals 0 and 1 used as a count elsewhere stay ordinary elements here
               Bin("IN", A, Agg(<<Rep(One, A)>>)), Bin("IN", A, Agg(<<Rep(Two, Bin("+", A, One)), One>>)),
               Bin("IN", A, Agg(<<Rep(Two, Lit("int", "0"))>>)), Bin("IN", A, Agg(<<Lit("int", "0"), Lit("int", "0"), One>>)),
               Bin("IN", A, Agg(<<Rep(A, Call("ABS", <<A>>)), Rep(One, One)>>))}
         \cup {Bin("LIKE", Lit("id", "a3"), Lit("str", v)) : v \in {"abc", "it''s", "a b", "", "item %d of %d", "100%", "%s%s%n %x", "%%",
                   \* literals longer than a short line (the printer splits them) with doubled apostrophes inside, at the cut and at the end
                   "a long literal that doesn''t fit on one line of forty characters, isn''t it''",
                   "''''''''''''''''''''''''''''''''''''''''''''''''''''''''''''",
                   "0123456789012345678901234567890123456789''0123456789012345678901234567890123456789"}}
         \cup {Bin("=", Lit("id", "a3"), Bin("+", Lit("str", "x"), Lit("str", "y")))}
BoolCases == {[kind |-> "bool", e |-> x] : x \in Bool2}
Cases == NumCases \cup BoolCases
VARIABLE c
Init == c \in Cases
Next == UNCHANGED c
Emit == PrintT("@@CASE " \o ToJson([kind |-> c.kind, e |-> c.e, src |-> Render(c.e), prec |-> PrecTable]))
(* the minimal-parenthesis rendering is injective on the case set: distinct structures have distinct source forms *)
Injective == \A d \in Cases : d.e # c.e => Render(d.e) # Render(c.e)
====

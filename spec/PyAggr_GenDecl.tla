---- MODULE PyAggr_GenDecl ----
(* every declaration over a small window of bounds, legal or not: construction must succeed exactly for the legal ones *)
EXTENDS PyAggr, TLC, Json
VARIABLE r
Decls == [kind : Kinds, lo : (0 - 2)..3, hi : (0 - 2)..4, unb : BOOLEAN, uniq : {FALSE}, opt : {FALSE}]
GInit == r \in Decls /\ k = r /\ c = <<>>
GNext == UNCHANGED <<r, k, c>>
Emit == PrintT("@@CASE " \o ToJson([cfg |-> r, legal |-> LegalCfg(r)]))
====

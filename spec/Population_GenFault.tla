---- MODULE Population_GenFault ----
(* C03 on generated schemas: every population of round n with one violation of every class at its first and last place *)
EXTENDS Population, Json
CONSTANTS Deep, Rounds
VARIABLES c, n
Covered(ch) == ~ch.aux /\ ch.inh # "noents" /\ ~(ch.ts.k = "chain" /\ ch.ts.of = "select") /\ "nm" \notin DOMAIN ch
Init == c \in {ch \in Choices(Deep) : Covered(ch) /\ Conforming(Valid(ch))} /\ n \in 0..Rounds
Next == UNCHANGED <<c, n>>
Emit == PrintT("@@CASE " \o ToJson([choice |-> c, n |-> n, schema |-> Valid(c), pop |-> Pop(Valid(c), n),
                                    faults |-> FaultCases(Valid(c), Pop(Valid(c), n), n)]))
====

------------------------------ MODULE Complex ------------------------------
(***************************************************************************)
(* Externally mapped ("complex") instances: which sets of entity parts are  *)
(* legal under a schema's SUBTYPE / SUPERTYPE declarations (property C08;   *)
(* src/clstepcore/complexSupport.h, entlist.cc, match-ors.cc, trynext.cc,   *)
(* non-ors.cc, Registry::ObjCreate, STEPfile::CreateSubSuperInstance).      *)
(*                                                                         *)
(* A schema shape is a record                                               *)
(*   [ents: Seq(name), supers: [name -> SUBSET name], abstract: SUBSET name,*)
(*    expr: [name -> tree]]                                                 *)
(* with trees [k |-> "none"] | [k |-> "leaf", e |-> name] |                 *)
(*            [k |-> "oneof"|"and"|"andor", kids |-> Seq(tree)].            *)
(***************************************************************************)
EXTENDS Integers, FiniteSets, Sequences

EntsOf(sh) == {sh.ents[i] : i \in 1..Len(sh.ents)}
Subs(sh, e) == {s \in EntsOf(sh) : e \in sh.supers[s]}

(* the sets of direct subtypes an expression allows *)
RECURSIVE Allowed(_)
Allowed(t) ==
  IF t.k = "leaf" THEN {{t.e}}
  ELSE IF t.k = "oneof" THEN UNION {Allowed(t.kids[i]) : i \in 1..Len(t.kids)}
  ELSE IF t.k = "and" THEN
       LET RECURSIVE Prod(_)
           Prod(i) == IF i > Len(t.kids) THEN {{}}
                      ELSE {x \cup y : x \in Allowed(t.kids[i]), y \in Prod(i + 1)}
       IN Prod(1)
  ELSE \* andor: any non-empty sub-collection of the operands, each contributing one allowed set
       LET RECURSIVE Opt(_)
           Opt(i) == IF i > Len(t.kids) THEN {{}}
                     ELSE {x \cup y : x \in Allowed(t.kids[i]) \cup {{}}, y \in Opt(i + 1)}
       IN Opt(1) \ {{}}

RECURSIVE Mentioned(_)
Mentioned(t) == IF t.k = "leaf" THEN {t.e} ELSE UNION {Mentioned(t.kids[i]) : i \in 1..Len(t.kids)}

(* allowed sets of direct subtypes of e; subtypes the expression does not mention are implicitly ANDOR'ed *)
AllowedSubs(sh, e) ==
  LET x    == sh.expr[e]
      ment == IF x.k = "none" THEN {} ELSE Mentioned(x)
      base == IF x.k = "none" THEN {{}} ELSE Allowed(x) \cup {{}}
      free == Subs(sh, e) \ ment
  IN {p \cup q : p \in base, q \in SUBSET free}

(* C08: S contains every supertype of each member, satisfies each member's expression over the subtypes *)
(* present, and contains a (non-abstract) leaf below every ABSTRACT member                              *)
Legal(sh, S) ==
  /\ S # {}
  /\ \A e \in S : sh.supers[e] \subseteq S
  /\ \A e \in S : LET p == S \cap Subs(sh, e) IN
        /\ p \in AllowedSubs(sh, e)
        /\ (e \in sh.abstract => p # {})

(* The verdict is a function of the part set alone: in a file with several externally mapped instances, instance i  *)
(* is created iff Legal(sh, parts[i]), whatever was read - created or refused - before it.  (C08 walks every        *)
(* ordered pair of part sets of a shape through one reader process.)                                              *)
HistoryFree(sh, parts, created) == \A i \in 1..Len(parts) : created[i] = Legal(sh, parts[i])

(* ---- named deviations of the implementation (known findings; never part of the property) ---- *)
(* Dev_RootAloneRefused: an externally mapped instance with a single part is refused by the matcher even when  *)
(* that entity may be instantiated on its own                                                                   *)
Dev_RootAloneRefused(sh, S) == Cardinality(S) = 1 /\ Legal(sh, S)
(* Dev_MultiSupertypeNotRequired: for a member with several supertypes the matcher is satisfied when one of     *)
(* them is present; the set is otherwise legal once the missing supertypes of such members are added            *)
Dev_MultiSupertypeNotRequired(sh, S) ==
  /\ ~Legal(sh, S)
  /\ \E d \in S : Cardinality(sh.supers[d]) >= 2 /\ ~(sh.supers[d] \subseteq S) /\ sh.supers[d] \cap S # {}
  /\ \A e \in S : Cardinality(sh.supers[e]) < 2 => sh.supers[e] \subseteq S
DevOf(sh, S) == IF Dev_RootAloneRefused(sh, S) THEN "Dev_RootAloneRefused"
                ELSE IF Dev_MultiSupertypeNotRequired(sh, S) THEN "Dev_MultiSupertypeNotRequired" ELSE ""

(* A part set whose members fall into groups with no subtype / supertype link between them (two roots of separate  *)
(* trees without the subtype that joins them) satisfies the three clauses of the statement member by member, yet    *)
(* it is not one instance of one subtype/supertype graph; the statement is silent on it, so neither outcome is      *)
(* demanded (three-valued oracle: "free")                                                                          *)
Linked(sh, x, y) == x \in sh.supers[y] \/ y \in sh.supers[x]
RECURSIVE Comp(_, _, _)
Comp(sh, S, seen) == LET nxt == {y \in S : \E x \in seen : Linked(sh, x, y)} \ seen
                     IN IF nxt = {} THEN seen ELSE Comp(sh, S, seen \cup nxt)
Connected(sh, S) == S = {} \/ Comp(sh, S, {CHOOSE x \in S : TRUE}) = S
=============================================================================

----------------------------- MODULE Population -----------------------------
(***************************************************************************)
(* Conforming populations of the schemas of Schema.tla (property C01, and   *)
(* the material of C14 / C16 / C05 on generated schemas): for a schema s    *)
(* and a round n, one instance of every instantiable entity, its            *)
(* parameters in Part 21 order (AttrOrder), every value drawn from the pool *)
(* of literal forms of the attribute's underlying kind, the pools walked    *)
(* with n.  Values are abstract:                                            *)
(*   [k |-> "tok", t]            a literal token of a simple kind           *)
(*   [k |-> "enum", item]        an enumeration item (written .ITEM.)       *)
(*   [k |-> "ref", id]           a reference to the instance with that id   *)
(*   [k |-> "typed", ty, v]      a SELECT value of a defined type: TY(v)    *)
(*   [k |-> "list", items]       an aggregate                               *)
(*   [k |-> "null"]              $                                          *)
(***************************************************************************)
EXTENDS Schema, TLC

Simple == {"INTEGER", "REAL", "NUMBER", "STRING", "BOOLEAN", "LOGICAL", "BINARY"}
Lit(b) ==
  CASE b = "INTEGER" -> <<"0", "7", "-7", "+7", "007", "2147483648", "-9223372036854775806", "1000000000000000">>
    [] b = "REAL"    -> <<"0.", "1.5", "-1.5", "1.E5", "1.5E-3", "2.5E+10", "0.1", "2.E-308", "-1.E+300">>
    [] b = "NUMBER"  -> <<"3.5", "7.", "-2.5E3">>
    \* (text that looks like Part 21 syntax comes first: a scanner that looks for ; ( ) ' # must not find it inside a string)
    [] b = "STRING"  -> <<"'a;b'", "'with #1 (;) /* x */'", "'abc'", "''", "'it''s;'", "'$'", "'back\\\\slash'", "');'">>
    [] b = "BOOLEAN" -> <<".T.", ".F.">>
    [] b = "LOGICAL" -> <<".T.", ".F.", ".U.">>
    [] b = "BINARY"  -> <<"\"0\"", "\"0F\"", "\"1ABC\"">>
Tok(b, n) == [k |-> "tok", t |-> Lit(b)[(n % Len(Lit(b))) + 1]]
Null == [k |-> "null"]

IsType(s, n) == \E i \in 1..Len(s.types) : s.types[i].name = n
IsEnt(s, n) == \E i \in 1..Len(s.ents) : s.ents[i].name = n
RECURSIVE IsA(_, _, _)
IsA(s, sub, sup) == sub = sup \/ \E i \in 1..Len(EntByName(s, sub).supers) : IsA(s, EntByName(s, sub).supers[i], sup)
EntIndex(s, n) == CHOOSE i \in 1..Len(s.ents) : s.ents[i].name = n
(* entities that get a simple instance of their own: not abstract (the family's roots with a ONEOF / ANDOR     *)
(* constraint over their subtypes may still be instantiated alone)                                             *)
Instantiable(s) == {i \in 1..Len(s.ents) : ~s.ents[i].abstract}
IdOf(i) == 10 * i
(* the instance a reference of declared entity type e points to: an instantiable entity that is an e            *)
HasTarget(s, e) == \E i \in Instantiable(s) : IsA(s, s.ents[i].name, e)
(* (rotating with the round through every instantiable entity that is an e: the entity itself, its subtypes, and  *)
(* subtypes that reach e only through one of several supertypes)                                                  *)
Targets(s, e) == {i \in Instantiable(s) : IsA(s, s.ents[i].name, e)}
Target(s, e, n) == LET TT == Targets(s, e)
                       k == n % Cardinality(TT)
                   IN IdOf(CHOOSE i \in TT : Cardinality({j \in TT : j < i}) = k)

(* number of elements of an aggregate value: the lower bound, or one more when the upper bound allows, by round *)
Count(t, n) == IF t.agg = "ARRAY" THEN t.hi - t.lo + 1
               ELSE LET want == t.lo + (n % 3) IN IF t.hi # -1 /\ want > t.hi THEN t.hi ELSE want

RECURSIVE BaseKindOf(_, _)
BaseKindOf(s, b) == IF b \in Simple THEN b
                    ELSE IF IsEnt(s, b) THEN "entity"
                    ELSE LET ty == TypeByName(s, b) IN
                         CASE ty.k \in {"simple", "rename"} -> BaseKindOf(s, ty.base.base)
                           [] ty.k = "enum" -> "enum" [] ty.k = "select" -> "select" [] ty.k = "aggr" -> "aggr"
RECURSIVE ValueOfBase(_, _, _, _), ValueOf(_, _, _, _)
(* value of a named base (simple kind, defined type or entity) in round n; d bounds the recursion through selects *)
ValueOfBase(s, b, n, d) ==
  IF b \in Simple THEN Tok(b, n)
  ELSE IF IsEnt(s, b) THEN (IF HasTarget(s, b) THEN [k |-> "ref", id |-> Target(s, b, n)] ELSE Null)
  ELSE LET ty == TypeByName(s, b) IN
       CASE ty.k = "simple" -> ValueOfBase(s, ty.base.base, n, d)
         [] ty.k = "rename" -> ValueOfBase(s, ty.base.base, n, d)
         [] ty.k = "enum"   -> [k |-> "enum", item |-> ty.items[(n % Len(ty.items)) + 1]]
         [] ty.k = "aggr"   -> ValueOf(s, ty.base, n, d)
         [] ty.k = "select" ->
              LET m == ty.members[(n % Len(ty.members)) + 1] IN
              IF IsEnt(s, m) THEN ValueOfBase(s, m, n, d)
              \* an item that is itself a select contributes its own values: no keyword for the select
              ELSE IF TypeByName(s, m).k = "select" \/ (TypeByName(s, m).k = "rename" /\ BaseKindOf(s, m) = "select") THEN ValueOfBase(s, m, n + 1, d + 1)
              ELSE [k |-> "typed", ty |-> m, v |-> ValueOfBase(s, m, n + 1, d + 1)]
(* value of a typeref (possibly an aggregate, possibly of aggregates); elements are distinct when UNIQUE is set *)
ValueOf(s, t, n, d) ==
  IF t.agg = "none" THEN ValueOfBase(s, t.base, n, d)
  ELSE LET c0 == Count(t, n)
           \* all references of one entity type go to the same instance: a UNIQUE aggregate of references has at most one
           cnt == IF t.uniq /\ "inner" \notin DOMAIN t /\ IsEnt(s, t.base) /\ c0 > 1 /\ t.lo <= 1 THEN 1 ELSE c0
       IN [k |-> "list", items |-> [i \in 1..cnt |->
           IF "inner" \in DOMAIN t THEN ValueOf(s, t.inner, n + i, d) ELSE ValueOfBase(s, t.base, n + i, d)]]

AttrDecl(s, o) == LET e == EntByName(s, o.owner) IN e.attrs[CHOOSE j \in 1..Len(e.attrs) : e.attrs[j].name = o.name]
(* the type an inherited attribute has in entity e: the one of the nearest redeclaration on the way up, else the declared one *)
RECURSIVE RedeclOf(_, _, _)
RedeclOf(s, e, o) == LET x == EntByName(s, e)
                         hit == {i \in 1..Len(x.redecl) : x.redecl[i].name = o.name /\ x.redecl[i].of = o.owner}
                     IN IF hit # {} THEN {x.redecl[CHOOSE i \in hit : TRUE].ty}
                        ELSE UNION {RedeclOf(s, x.supers[i], o) : i \in 1..Len(x.supers)}
RECURSIVE RedeclOptOf(_, _, _)
RedeclOptOf(s, e, o) == LET x == EntByName(s, e)
                            hit == {i \in 1..Len(x.redecl) : x.redecl[i].name = o.name /\ x.redecl[i].of = o.owner}
                        IN IF hit # {} THEN {x.redecl[CHOOSE i \in hit : TRUE].opt}
                           ELSE UNION {RedeclOptOf(s, x.supers[i], o) : i \in 1..Len(x.supers)}
(* is the attribute OPTIONAL in entity e? (a redeclaration on the way up may have made it required) *)
EffOpt(s, e, o) == IF RedeclOptOf(s, e, o) = {} THEN AttrDecl(s, o).opt ELSE CHOOSE b \in RedeclOptOf(s, e, o) : TRUE
EffTy(s, e, o) == IF RedeclOf(s, e, o) = {} THEN AttrDecl(s, o).ty ELSE CHOOSE t \in RedeclOf(s, e, o) : TRUE
(* is the inherited attribute o redeclared as DERIVEd in e or between e and its owner? (its slot then holds `*`) *)
RECURSIVE DerivedIn(_, _, _)
DerivedIn(s, e, o) == LET x == EntByName(s, e) IN
                      \/ \E i \in 1..Len(x.derive) : x.derive[i].name = "SELF\\" \o o.owner \o "." \o o.name
                      \/ (e # o.owner /\ \E i \in 1..Len(x.supers) : DerivedIn(s, x.supers[i], o))
Star == [k |-> "star"]
(* parameters of a simple instance of entity e: AttrOrder; an OPTIONAL attribute is unset every third round *)
Params(s, e, n) == LET o == AttrOrder(s, e) IN
  [j \in 1..Len(o) |-> LET a == AttrDecl(s, o[j]) IN
                       IF DerivedIn(s, e, o[j]) THEN Star
                       ELSE IF EffOpt(s, e, o[j]) /\ (n + j + EntIndex(s, e)) % 3 = 0 THEN Null ELSE ValueOf(s, EffTy(s, e, o[j]), n + j + EntIndex(s, e), 0)]
(* a required attribute of entity type can only be given when some instantiable entity of that type exists *)
Conforming(s) == \A i \in 1..Len(s.ents) : \A j \in 1..Len(s.ents[i].attrs) :
                   LET a == s.ents[i].attrs[j] IN (a.ty.agg = "none" /\ IsEnt(s, a.ty.base) /\ ~a.opt) => HasTarget(s, a.ty.base)
Pop(s, n) == [i \in 1..Cardinality(Instantiable(s)) |->
                LET e == CHOOSE e \in Instantiable(s) : Cardinality({x \in Instantiable(s) : x < e}) = i - 1 IN
                [id |-> IdOf(e), ent |-> s.ents[e].name, params |-> Params(s, s.ents[e].name, n)]]

(* ---- single violations of a conforming population (C03 on generated schemas) ---- *)
(* what kind of value a parameter of type t takes *)
KindOfRef(s, t) == IF t.agg # "none" THEN "aggr" ELSE BaseKindOf(s, t.base)
AttrAt(s, e, j) == AttrDecl(s, AttrOrder(s, e)[j])
(* a literal of a kind that is clearly wrong for a parameter of kind kd *)
WrongLit(kd) == IF kd \in {"STRING", "BINARY"} THEN [k |-> "tok", t |-> "7"] ELSE [k |-> "tok", t |-> "'x'"]
FaultClasses == {"few", "many", "wrongkind", "unknown_kw", "abstract_kw", "bad_enum", "star_not_derived", "missing_aggr",
                 "dangling_ref", "wrongtype_ref", "select_outside", "dup_id", "unterminated_inst", "unterminated_str",
                 \* a literal of the wrong kind inside a typed SELECT value (the select may be reached through another select)
                 "typed_wrongkind",
                 \* the same violations in an element of an aggregate (the element readers are separate code)
                 "elem_dangling_ref", "elem_wrongtype_ref", "elem_wrongkind", "elem_bad_enum"}
ElemApplicable(s, pop, cl, a, v) ==
  /\ a.ty.agg # "none" /\ "inner" \notin DOMAIN a.ty /\ v.k = "list" /\ Len(v.items) > 0
  /\ LET ek == BaseKindOf(s, a.ty.base) IN
     (CASE cl = "elem_dangling_ref" -> ek = "entity"
        [] cl = "elem_wrongtype_ref" -> ek = "entity" /\ \E q \in 1..Len(pop) : ~IsA(s, pop[q].ent, a.ty.base)
        [] cl = "elem_wrongkind" -> ek \in (Simple \ {"NUMBER"}) \cup {"enum", "entity"}
        [] cl = "elem_bad_enum" -> ek = "enum"
        [] OTHER -> FALSE)
(* is class cl applicable to parameter j of instance number i of pop (j = 0: the instance as a whole)? *)
Applicable(s, pop, cl, i, j) ==
  LET x == pop[i] IN
  IF j = 0 THEN cl \in {"few", "many", "unknown_kw", "unterminated_inst"} \/ (cl = "dup_id" /\ i > 1)
                \/ (cl = "abstract_kw" /\ \E a \in 1..Len(s.ents) : s.ents[a].abstract)
  ELSE /\ j \in 1..Len(x.params) /\ x.params[j].k \notin {"null", "star"}
       /\ LET a == AttrAt(s, x.ent, j)
               kd == KindOfRef(s, a.ty)
           IN CASE cl = "wrongkind" -> kd \in Simple \cup {"enum", "entity", "aggr"} /\ kd # "NUMBER"
                [] cl = "bad_enum" -> kd = "enum"
                [] cl = "star_not_derived" -> TRUE
                [] cl = "missing_aggr" -> kd = "aggr" /\ ~a.opt
                [] cl = "dangling_ref" -> kd = "entity"
                [] cl = "wrongtype_ref" -> kd = "entity" /\ \E q \in 1..Len(pop) : ~IsA(s, pop[q].ent, a.ty.base)
                [] cl = "select_outside" -> kd = "select"
                [] cl = "typed_wrongkind" -> kd = "select" /\ x.params[j].k = "typed" /\ BaseKindOf(s, x.params[j].ty) \in (Simple \ {"NUMBER"}) \cup {"enum"}
                [] cl = "unterminated_str" -> kd = "STRING"
                [] cl \in {"elem_dangling_ref", "elem_wrongtype_ref", "elem_wrongkind", "elem_bad_enum"} -> ElemApplicable(s, pop, cl, a, x.params[j])
                [] OTHER -> FALSE
(* the faulty instance *)
Faulty(s, pop, cl, i, j, n) ==
  LET x == pop[i]
      Set(v) == [x EXCEPT !.params = [x.params EXCEPT ![j] = v]]
  IN CASE cl = "few" -> [x EXCEPT !.params = SubSeq(x.params, 1, Len(x.params) - 1)]
       [] cl = "many" -> [x EXCEPT !.params = Append(x.params, [k |-> "tok", t |-> "1"])]
       [] cl = "unknown_kw" -> [x EXCEPT !.ent = "nosuch_entity"]
       [] cl = "abstract_kw" -> LET a == CHOOSE a \in 1..Len(s.ents) : s.ents[a].abstract IN
                                [x EXCEPT !.ent = s.ents[a].name, !.params = Params(s, s.ents[a].name, n)]
       [] cl = "dup_id" -> [x EXCEPT !.id = pop[1].id]
       [] cl = "wrongkind" -> Set(WrongLit(KindOfRef(s, AttrAt(s, x.ent, j).ty)))
       [] cl = "bad_enum" -> Set([k |-> "enum", item |-> "nosuch_item"])
       [] cl = "star_not_derived" -> Set([k |-> "tok", t |-> "*"])
       [] cl = "missing_aggr" -> Set(Null)
       [] cl = "dangling_ref" -> Set([k |-> "ref", id |-> 999])
       [] cl = "wrongtype_ref" -> LET q == CHOOSE q \in 1..Len(pop) : ~IsA(s, pop[q].ent, AttrAt(s, x.ent, j).ty.base) IN Set([k |-> "ref", id |-> pop[q].id])
       [] cl = "select_outside" -> Set([k |-> "typed", ty |-> "nosuch_t", v |-> [k |-> "tok", t |-> "'x'"]])
       [] cl = "typed_wrongkind" -> Set([x.params[j] EXCEPT !.v = WrongLit(BaseKindOf(s, x.params[j].ty))])
       [] cl \in {"elem_dangling_ref", "elem_wrongtype_ref", "elem_wrongkind", "elem_bad_enum"} ->
            LET a == AttrAt(s, x.ent, j)
                last == Len(x.params[j].items)
                v == CASE cl = "elem_dangling_ref" -> [k |-> "ref", id |-> 999]
                       [] cl = "elem_wrongtype_ref" -> LET q == CHOOSE q \in 1..Len(pop) : ~IsA(s, pop[q].ent, a.ty.base) IN [k |-> "ref", id |-> pop[q].id]
                       [] cl = "elem_wrongkind" -> WrongLit(BaseKindOf(s, a.ty.base))
                       [] cl = "elem_bad_enum" -> [k |-> "enum", item |-> "nosuch_item"]
            IN Set([x.params[j] EXCEPT !.items = [@ EXCEPT ![last] = v]])
       [] OTHER -> x        \* unterminated_inst / unterminated_str: the text of the instance is cut by the renderer
(* one case per class: the first and the last place where the class applies *)
Places(s, pop, cl) == {<<i, j>> \in (1..Len(pop)) \X (0..12) : Applicable(s, pop, cl, i, j)}
First(S) == CHOOSE p \in S : \A q \in S : p[1] < q[1] \/ (p[1] = q[1] /\ p[2] <= q[2])
Last(S) == CHOOSE p \in S : \A q \in S : p[1] > q[1] \/ (p[1] = q[1] /\ p[2] >= q[2])
FaultCases(s, pop, n) == UNION {IF Places(s, pop, cl) = {} THEN {} ELSE
                                  {[class |-> cl, i |-> p[1], j |-> p[2], inst |-> Faulty(s, pop, cl, p[1], p[2], n)] :
                                     p \in {First(Places(s, pop, cl)), Last(Places(s, pop, cl))}} : cl \in FaultClasses}

(* editing states for C16: complete / incomplete / new rotate with the round; an instance that no other instance *)
(* refers to is marked deleted every second time (the properties leave a deleted but referenced instance open)   *)
RECURSIVE RefsOf(_)
RefsOf(v) == CASE v.k = "ref" -> {v.id}
               [] v.k = "star" -> {}
               [] v.k = "typed" -> RefsOf(v.v)
               [] v.k = "list" -> UNION {RefsOf(v.items[i]) : i \in 1..Len(v.items)}
               [] OTHER -> {}
Referenced(pop) == UNION {UNION {RefsOf(pop[i].params[j]) : j \in 1..Len(pop[i].params)} : i \in 1..Len(pop)}
StateOf(pop, i, n) == IF pop[i].id \notin Referenced(pop) /\ (n + i) % 2 = 1 THEN "D" ELSE <<"C", "I", "N">>[((n + i) % 3) + 1]
States(pop, n) == [i \in 1..Len(pop) |-> StateOf(pop, i, n)]
=============================================================================

---- MODULE Session_Gen ----
(* scenario generator for C14/C16: conforming exchange files over colliding / sparse / near-1000 id sets with *)
(* references in every position (plain attribute, aggregate element, select, select in aggregate, attribute of *)
(* a complex part), backward and forward, and call sequences Read F1, Append F2 [, Append F3].                 *)
EXTENDS Integers, Sequences, TLC, Json
CONSTANTS NFirst,     \* how many shapes of the first file (1..4)
          Third       \* TRUE: a third file is appended as well
IdSets == { <<1, 2, 3>>, <<3, 1, 2>>, <<1, 1000, 1001>>, <<5, 999, 1000>>, <<1000, 2000, 3>> }
I(a, t, val, r) == [id |-> a, ty |-> t, v |-> val, refs |-> r, st |-> "C"]
Pats(a, b) == { <<a>>, <<b>>, <<a, b>>, <<b, a>>, <<a, a>>, <<>> }
RefShapes(a, b) == {[rt |-> "node", p |-> <<a>>], [rt |-> "node", p |-> <<b>>],
                    [rt |-> "h_sel", p |-> <<a>>], [rt |-> "h_sel", p |-> <<b>>]}
                   \cup {[rt |-> "h2_in", p |-> <<a>>], [rt |-> "h2_in", p |-> <<b>>]}
                   \cup {[rt |-> t, p |-> q] : t \in {"h_items", "h_sels", "h2_tl", "h2_ps"}, q \in Pats(a, b)}
                   \cup {[rt |-> "cx", p |-> q] : q \in Pats(a, b) \ {<<>>}} \cup {[rt |-> "cx", p |-> <<a>>]}
FilesOf(ids) == LET a == ids[1] b == ids[2] c == ids[3] IN
  { IF fwd THEN <<I(c, s.rt, IF s.rt \in {"node", "cx"} THEN c ELSE 0, s.p), I(b, "node", b, n2), I(a, "leaf", a, <<>>)>>
           ELSE <<I(a, "leaf", a, <<>>), I(b, "node", b, n2), I(c, s.rt, IF s.rt \in {"node", "cx"} THEN c ELSE 0, s.p)>>
      : s \in RefShapes(a, b), n2 \in {<<a>>, <<b>>}, fwd \in BOOLEAN }
AllFiles == UNION {FilesOf(ids) : ids \in IdSets}
FirstFiles == UNION {{ <<I(ids[1], "leaf", ids[1], <<>>), I(ids[2], "node", ids[2], <<ids[1]>>), I(ids[3], "leaf", ids[3], <<>>)>> } \cup
                      (IF NFirst > 1 THEN { <<I(ids[3], "h_items", 0, <<ids[1], ids[2]>>), I(ids[2], "node", ids[2], <<ids[2]>>), I(ids[1], "leaf", ids[1], <<>>)>> } ELSE {}) \cup
                      (IF NFirst > 2 THEN { <<I(ids[1], "leaf", ids[1], <<>>), I(ids[2], "leaf", ids[2], <<>>), I(ids[3], "cx", ids[3], <<ids[2], ids[1]>>)>> } ELSE {})
                      : ids \in IdSets}
ThirdFiles == {<<I(ids[1], "leaf", ids[1], <<>>), I(ids[2], "node", ids[2], <<ids[1]>>), I(ids[3], "h_sels", 0, <<ids[2], ids[1]>>)>> : ids \in IdSets}
(* the offset is computed from the highest id the session has seen: first files whose highest id is sparse and    *)
(* comes last, first, or in the middle, first files of one and two instances, and second files whose ids land on *)
(* an earlier id when the offset is computed from anything less than the true maximum                            *)
SparseFirst == { <<I(1, "leaf", 1, <<>>), I(2, "node", 2, <<1>>), I(5000, "leaf", 5000, <<>>)>>,
                 <<I(7000, "leaf", 7000, <<>>), I(2, "node", 2, <<7000>>), I(3, "leaf", 3, <<>>)>>,
                 <<I(4, "leaf", 4, <<>>), I(6500, "node", 6500, <<4>>), I(5, "leaf", 5, <<>>)>>,
                 <<I(7, "leaf", 7, <<>>)>>, <<I(2500, "leaf", 2500, <<>>)>>,
                 <<I(3, "leaf", 3, <<>>), I(4100, "node", 4100, <<3>>)>> }
LandingIds == { <<1, 3000, 3001>>, <<1, 2, 3>>, <<500, 2500, 4500>>, <<2000, 4000, 5000>> }
SparseScenarios == {<<f1, f2>> : f1 \in SparseFirst,
                               f2 \in UNION {{f \in FilesOf(ids) : f[1].ty = "leaf" /\ f[3].ty \in {"node", "h_items"}} : ids \in LandingIds}}
Scenarios == (IF Third THEN {<<f1, f2, f3>> : f1 \in FirstFiles, f2 \in AllFiles, f3 \in ThirdFiles}
              ELSE {<<f1, f2>> : f1 \in FirstFiles, f2 \in AllFiles})
             \cup SparseScenarios
             \cup (IF Third THEN {<<f1, f2, f3>> : f1 \in SparseFirst, f2 \in {<<I(1, "leaf", 1, <<>>), I(9000, "node", 9000, <<1>>)>>},
                                                  f3 \in {g \in FilesOf(<<1, 3000, 3001>>) : g[1].ty = "leaf" /\ g[3].ty = "node"}} ELSE {})
VARIABLE sc
Init == sc \in Scenarios
Next == UNCHANGED sc
Emit == PrintT("@@CASE " \o ToJson(sc))
====

-------------------------------- MODULE Lazy --------------------------------
(***************************************************************************)
(* The lazy loader (src/cllazyfile: lazyInstMgr, sectionReader, lazyRefs)   *)
(* over one exchange file.  A population is a sequence of instances         *)
(* [id, ty, a, b]: a and b are the ordered references of the instance's     *)
(* first and second reference-carrying attribute (schemas/lazy.exp).        *)
(* This module states what properties C10 and C11 demand; LazyLoad.tla      *)
(* refines the recursive load the way the code performs it.                 *)
(***************************************************************************)
EXTENDS Integers, Sequences, FiniteSets

Range(s) == {s[i] : i \in 1..Len(s)}
IdsOf(P) == {P[i].id : i \in 1..Len(P)}
Inst(P, id) == P[CHOOSE i \in 1..Len(P) : P[i].id = id]
RefSet(x) == Range(x.a) \cup Range(x.b)

(* ---- spellings of a conforming file (ISO 10303-21 clause 5/6: blanks, line breaks, TAB, CR and comments are  *)
(* token separators and any number of them may stand between any two tokens of the data section; a string may   *)
(* contain anything, with the apostrophe doubled; a control directive \S\c denotes one character, whatever c is) *)
Layouts == <<"compact", "spaced", "comment1", "comment2", "commentEnd", "commentFirst", "commentAfterEq",
             "inlineComment", "kwNl", "kwTab", "kwSp", "crlf", "multiline", "blank", "oneLine", "refSpace">>
StrForms == <<"plain", "hashparen", "quotes", "unset", "directive2", "directive1">>

(* ---- C10: index, forward table, reverse table (as relations), dependency closure ---- *)
FwdRel(P) == {<<x, y>> \in IdsOf(P) \X IdsOf(P) : y \in RefSet(Inst(P, x))}
RevRel(P) == {<<y, x>> : <<x, y>> \in FwdRel(P)}
RECURSIVE Reach(_, _, _)
Reach(P, frontier, seen) ==
  LET nxt == {y \in IdsOf(P) : \E x \in frontier : <<x, y>> \in FwdRel(P)} \ seen
  IN IF nxt = {} THEN seen ELSE Reach(P, nxt, seen \cup nxt)
(* instances reachable from id in one or more steps (id itself only if it lies on a cycle) *)
Deps(P, id) == Reach(P, {id}, {})
OnCycle(P, id) == id \in Deps(P, id)
(* does loading id have to traverse a reference cycle? *)
ReachesCycle(P, id) == OnCycle(P, id) \/ \E y \in Deps(P, id) : OnCycle(P, y)

(* ---- C11: inverse attributes declared in schemas/lazy.exp ---- *)
(* [entity |-> attribute name |-> [over: referrer entities (with subtypes), via: "a" | "b", single: BOOLEAN]] *)
InvDecl(ty) ==
  \* (isubsub inherits the attribute over two levels, idia along two supertype paths: it is still one attribute)
  CASE ty \in {"inode", "isubnode", "isubsub", "idl", "idia"} -> {[name |-> "owners", over |-> {"iholder", "isub", "imulti"}, via |-> "a", single |-> FALSE]}
    [] ty = "irec" -> {[name |-> "children", over |-> {"irec"}, via |-> "a", single |-> FALSE]}
    [] ty = "ione" -> {[name |-> "owner", over |-> {"ilink"}, via |-> "a", single |-> TRUE]}
    [] ty = "itwo" -> {[name |-> "a_of", over |-> {"ipair"}, via |-> "a", single |-> FALSE],
                       [name |-> "b_of", over |-> {"ipair"}, via |-> "b", single |-> FALSE]}
    [] OTHER -> {}
Via(y, v) == IF v = "a" THEN Range(y.a) ELSE Range(y.b)
(* exactly the real referrers: instances of the inverted entity (or a subtype) whose inverted attribute holds x *)
Referrers(P, x, d) == {P[i].id : i \in {j \in 1..Len(P) : P[j].ty \in d.over /\ x \in Via(P[j], d.via)}}
(* a population is conforming for C11 when a single-valued inverse has at most one referrer *)
InvConforming(P) == \A i \in 1..Len(P) : \A d \in InvDecl(P[i].ty) : d.single => Cardinality(Referrers(P, P[i].id, d)) <= 1
=============================================================================

---- MODULE SessionWS_MC ----
(* design check of the working-session part of Session: every state assignment of small populations *)
EXTENDS Session, TLC
I(a, t, r) == [id |-> a, ty |-> t, v |-> a, refs |-> r, st |-> "C"]
Files == { <<I(1, "leaf", <<>>), I(2, "node", <<1>>), I(3, "sn", <<>>)>>,
           <<I(5, "node", <<5>>), I(2, "h_items", <<5, 5>>)>> }
VARIABLES saved, phase
mvars == <<pop, saved, phase>>
MInit == Init /\ saved = <<>> /\ phase = "empty"
MNext == \/ phase = "empty" /\ \E F \in Files : ReadExchange(F) /\ phase' = "edit" /\ UNCHANGED saved
         \/ phase = "edit" /\ \E i \in 1..Len(pop), s \in Letters : ChangeState(i, s) /\ UNCHANGED <<saved, phase>>
         \/ phase = "edit" /\ saved' = WorkingFileOf(pop) /\ phase' = "saved" /\ UNCHANGED pop
         \/ phase = "saved" /\ ReadWorking(saved) /\ phase' = "edit" /\ UNCHANGED saved
MSpec == MInit /\ [][MNext]_mvars
(* after loading: exactly the non-deleted instances, same ids/types/values/states, in order *)
WSRoundTrip == [][(phase = "saved" /\ phase' = "edit") =>
                    /\ pop' = SelectSeq(pop, LAMBDA x : x.st # "D")
                    /\ \A i \in 1..Len(pop') : pop'[i].st \in {"C", "I", "N"}]_mvars
====

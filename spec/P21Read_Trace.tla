---- MODULE P21Read_Trace ----
(* monitor: every recorded read of a file with one unset parameter is judged by P21Read!MissingOutcome *)
EXTENDS P21Read, TLC, Json, IOUtils
VARIABLE l
TraceLog == ndJsonDeserialize(IOEnv.TRACE)
Ev == TraceLog[l]
Report(what, dev) == PrintT("@@CASE " \o ToJson([line |-> l, what |-> what, dev |-> dev, ev |-> Ev]))
TMissing == /\ l <= Len(TraceLog) /\ Ev.e = "Missing" /\ l' = l + 1
            /\ LET o == MissingOutcome(Ev.kind, Ev.opt, Ev.strict, Ev.form) IN
               /\ (~Satisfies(o, Ev.kind, Ev.sev, Ev.wclass)) =>
                     Report(o, IF Dev_ComplexPartSeverityDropped(o, Ev.ctx, Ev.sev, Ev.wclass) THEN "Dev_ComplexPartSeverityDropped"
                               ELSE IF Dev_QuotedNumericFiller(o, Ev.kind, Ev.sev, Ev.wclass) THEN "Dev_QuotedNumericFiller" ELSE "")
               /\ (Ev.exit # ExitOf(Ev.sev)) => Report("exit", "")
               /\ (~Ev.others_ok) => Report("confinement", "")
(* C03: a file with one violation is never clean, the reference tool exits non-zero, other instances are intact *)
TFault == /\ l <= Len(TraceLog) /\ Ev.e = "Fault" /\ l' = l + 1
          /\ (~Detected(Ev.sev, Ev.exit)) => Report("undetected", "")
          /\ (Ev.toolexit = 0) => Report("tool-exit-0", "")
          /\ (~Ev.confined) => Report("confinement", "")
TInit == l = 1
TNext == TMissing \/ TFault
TraceAccepted == TLCGet("stats").diameter - 1 = Len(TraceLog)
====

------------------------------ MODULE FrontEnd ------------------------------
(***************************************************************************)
(* The tool pipeline shared by check-express, exppp, exp2cxx and exp2python *)
(* (src/express/fedex.c): arguments -> parse -> resolve -> back end, each   *)
(* stage gated on the sticky flag ERRORoccurred; every diagnostic of        *)
(* severity ERROR or worse sets the flag; the exit status is decided by the *)
(* flag; the back end (which writes the artefacts) runs only when it is     *)
(* clear.  Properties C04 (verdicts) and C20 (diagnostics) are predicates   *)
(* over a run [tool, input, expect, diags, rc, artefacts].                  *)
(***************************************************************************)
EXTENDS Integers, Sequences, FiniteSets

Tools == {"check-express", "exppp", "exp2cxx", "exp2python"}
VARIABLES phase,     \* "idle" | "parse" | "resolve" | "backend" | "done"
          errFlag,   \* sticky
          diags,     \* sequence of [sev, file]
          rc, nfiles
vars == <<phase, errFlag, diags, rc, nfiles>>
Init == phase = "idle" /\ errFlag = FALSE /\ diags = <<>> /\ rc = 0 /\ nfiles = 0
Start == phase \in {"idle", "done"} /\ phase' = "parse" /\ errFlag' = FALSE /\ diags' = <<>> /\ rc' = 0 /\ nfiles' = 0
Report(sev) == /\ phase \in {"parse", "resolve"}
               /\ diags' = Append(diags, [sev |-> sev])
               /\ errFlag' = (errFlag \/ sev = "ERROR")
               /\ UNCHANGED <<phase, rc, nfiles>>
(* a stage hands over to the next one only when no error has occurred *)
Advance == \/ phase = "parse" /\ ~errFlag /\ phase' = "resolve" /\ UNCHANGED <<errFlag, diags, rc, nfiles>>
           \/ phase = "resolve" /\ ~errFlag /\ phase' = "backend" /\ UNCHANGED <<errFlag, diags, rc, nfiles>>
Backend(n) == phase = "backend" /\ nfiles' = n /\ phase' = "done" /\ rc' = 0 /\ UNCHANGED <<errFlag, diags>>
Fail == phase \in {"parse", "resolve"} /\ errFlag /\ phase' = "done" /\ rc' = 1 /\ UNCHANGED <<errFlag, diags, nfiles>>
Next == Start \/ (\E s \in {"ERROR", "WARNING"} : Report(s)) \/ Advance \/ (\E n \in 0..2 : Backend(n)) \/ Fail
Spec == Init /\ [][Next]_vars
Bound == Len(diags) <= 3

(* ---- C04 on a finished run ---- *)
HasError(ds) == \E i \in 1..Len(ds) : ds[i].sev = "ERROR"
ExitIffError(ds, r) == (r # 0) <=> HasError(ds)
SmallStatus(r) == r \in 0..2                          \* an ordinary status, not a signal
NoArtefactOnError(ds, r, n) == (HasError(ds) \/ r # 0) => n = 0
Verdict(expect, ds, r) == CASE expect = "valid" -> ~HasError(ds) /\ r = 0
                            [] expect = "fault" -> HasError(ds) /\ r # 0
                            [] OTHER -> TRUE     \* "any": an input whose validity the generator does not decide
(* the design satisfies them *)
DesignOK == phase = "done" => ExitIffError(diags, rc) /\ NoArtefactOnError(diags, rc, nfiles) /\ SmallStatus(rc)
=============================================================================

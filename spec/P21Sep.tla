------------------------------- MODULE P21Sep -------------------------------
(***************************************************************************)
(* Token separators of ISO 10303-21 exchange files.  Between any two        *)
(* tokens of a section any number of separators may stand: the space, the   *)
(* line break (LF or CR LF), TAB, and the comment, which starts with a      *)
(* solidus-asterisk pair and runs to the first asterisk-solidus pair; its   *)
(* body may contain anything else, in particular the characters that        *)
(* have a meaning outside comments: apostrophe, semicolon, parentheses,     *)
(* number sign, equals sign.  A reader that searches for one of those       *)
(* characters must therefore recognise comments (and strings) first.        *)
(* Every check that spells files (C01, C10, C11, C14, C16, C05) draws its   *)
(* separators from this module.                                             *)
(***************************************************************************)
EXTENDS Integers, Sequences, TLC, Json

Blanks == <<" ", "\n", "\t", "\r\n", "  ">>
(* comment bodies: empty, plain, each significant character alone, text that looks like data *)
(* (runs of asterisks of even and odd length before the closing solidus: a scanner that looks at pairs of characters  *)
(* must not step over the pair that ends the comment)                                                              *)
Bodies == <<"", " c ", "'", ";", "(", ")", "#9", "=", "*", "/", ",", "$", " #7=X('a;',(#1)); ", " it's ", "/* ", "''", "\\",
            "**", "* x *", " x **", "*****", "* / *">>
Comment(b) == "/*" \o b \o "*/"
Comments == [i \in 1..Len(Bodies) |-> Comment(Bodies[i])]
(* separator strings: single atoms and the two-atom combinations blank+comment, comment+blank, comment+comment *)
Seps == [plain    |-> Blanks,
         comments |-> Comments
                      \o [i \in 1..Len(Comments) |-> Blanks[(i % Len(Blanks)) + 1] \o Comments[i]]
                      \o [i \in 1..Len(Comments) |-> Comments[i] \o Blanks[((i + 2) % Len(Blanks)) + 1]]
                      \o [i \in 1..Len(Comments) |-> Comments[i] \o Comments[(i % Len(Comments)) + 1]]]

VARIABLE done
Init == done = FALSE
Next == done' = TRUE
Emit == done \/ PrintT("@@CASE " \o ToJson(Seps))
=============================================================================

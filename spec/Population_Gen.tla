---- MODULE Population_Gen ----
(* emits, for every schema of the valid family that C01 covers, its populations of rounds 0..Rounds *)
EXTENDS Population, Json
CONSTANTS Deep, Rounds
VARIABLES c, n
(* single-schema inputs; a renamed SELECT as attribute type is left out (the encoding of its values is disputed) *)
Covered(ch) == ~ch.aux /\ ch.inh # "noents" /\ ~(ch.ts.k = "chain" /\ ch.ts.of = "select")
Init == c \in {ch \in Choices(Deep) : Covered(ch)} /\ n \in 0..Rounds
Next == UNCHANGED <<c, n>>
Emit == PrintT("@@CASE " \o ToJson([choice |-> c, n |-> n, schema |-> Valid(c), conforming |-> Conforming(Valid(c)), pop |-> Pop(Valid(c), n), states |-> States(Pop(Valid(c), n), n)]))
====

CONSTANTS NObj = 3 MaxExpl = 2 MaxMax = 4
  Obj <- MCObj
  NameOf <- MCNameOf
  ExplIds <- MCExplIds
  States <- MCStates
SPECIFICATION Spec
CONSTRAINT Bound
INVARIANT Inv
INVARIANT ByNameOK
INVARIANT VerifyOK
PROPERTY FreshOK
PROPERTY OrderOK

INIT TInit
NEXT TNext
POSTCONDITION TraceAccepted
CHECK_DEADLOCK FALSE

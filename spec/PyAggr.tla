------------------------------- MODULE PyAggr -------------------------------
(***************************************************************************)
(* EXPRESS aggregate containers as the Python runtime exposes them          *)
(* (src/exp2python/python/stepcode/AggregationDataTypes.py): ARRAY, LIST,   *)
(* BAG, SET with item assignment / item read (ARRAY, LIST), add (BAG, SET)  *)
(* and the size / bound / index / uniqueness queries.                       *)
(*                                                                         *)
(* Acceptance of an operation is three-valued (property C19, clause by      *)
(* clause): "accept", "reject", or "free" where the statement is silent or  *)
(* two reasonable readings disagree.  The implementation's observed choice  *)
(* (parameter a) drives the state, so the module can follow any container   *)
(* and judge each step.                                                     *)
(***************************************************************************)
EXTENDS Integers, Sequences, FiniteSets, TLC

CONSTANTS Vals,      \* well-typed element values (positive integers)
          Bad        \* one ill-typed value

Unset == 0
(* ill-typed values.  Bad compares equal to no element.  Twin is of another type as well, but *compares equal* to  *)
(* the well-typed value 1 (as REAL(0.0) does to INTEGER(0)): a membership or equality test on the held values must  *)
(* not stand in for the check of the base type.                                                                    *)
Twin == Bad + 1
Bads == {Bad, Twin}
(* base types of the elements and the concrete values that stand for the abstract values 1, 2, 3, 4: the semantics *)
(* of the containers do not depend on the base type, but the first value of every base is the one a truthiness     *)
(* test takes for "nothing" (0, 0.0, the empty string), which must be an element like any other                    *)
Bases == <<"INTEGER", "REAL", "STRING">>
Concrete(b) == CASE b = "INTEGER" -> <<"0", "1", "-1", "7">> [] b = "REAL" -> <<"0.0", "1.5", "-2.5", "1e10">> [] b = "STRING" -> <<"", "a", "b", "ab">>
Kinds == {"ARRAY", "LIST", "BAG", "SET"}

VARIABLES k,         \* configuration: [kind, lo, hi, unb, uniq, opt]
          c          \* ARRAY/LIST: [index window -> value | Unset]; BAG/SET: sequence of values
vars == <<k, c>>

Indexed == k.kind \in {"ARRAY", "LIST"}
HiEff   == IF k.unb THEN k.lo + 2 ELSE k.hi            \* finite window for the unbounded LIST
Idx     == (k.lo - 1)..(HiEff + 1)                     \* indices an operation may name (one beyond each end)
Held    == IF Indexed THEN {i \in DOMAIN c : c[i] # Unset} ELSE DOMAIN c
Count   == Cardinality(Held)
ValueSet == {c[i] : i \in Held}
Min2(a, b) == IF a < b THEN a ELSE b
Max2(a, b) == IF a > b THEN a ELSE b

(* legal declarations: ARRAY needs lo <= hi; the others 0 <= lo <= hi or hi indeterminate *)
LegalCfg(r) == /\ r.kind \in Kinds
               /\ (r.kind = "ARRAY" => ~r.unb /\ r.lo <= r.hi)
               /\ (r.kind # "ARRAY" => r.lo >= 0 /\ (r.unb \/ r.lo <= r.hi) /\ ~r.opt)
               /\ (r.kind \in {"BAG", "SET"} => ~r.uniq)

Empty(r) == IF r.kind \in {"ARRAY", "LIST"}
            THEN [i \in (r.lo - 1)..((IF r.unb THEN r.lo + 2 ELSE r.hi) + 1) |-> Unset]
            ELSE <<>>

Construct(r) == /\ LegalCfg(r) /\ k' = r /\ c' = Empty(r)

(* ------------------- three-valued acceptance, clause by clause ------------------- *)
(* capacity used by the upper-bound clause; Cap(span) is the deviation the runtime has  *)
Cap(span) == IF span THEN k.hi - k.lo + 1 ELSE k.hi

MustSetC(i, v, span) ==
  IF v \in Bads THEN "reject"                                                        \* base type
  ELSE IF k.kind = "ARRAY" /\ (i < k.lo \/ i > k.hi) THEN "reject"                \* index (ARRAY)
  ELSE IF k.kind = "LIST" /\ (i < Min2(1, k.lo) \/ (~k.unb /\ i > k.hi)) THEN "reject"   \* index (LIST)
  ELSE IF k.uniq /\ (\E j \in DOMAIN c : j # i /\ c[j] = v) THEN "reject"         \* UNIQUE: held at another index
  ELSE IF k.kind = "LIST" /\ ~k.unb /\ c[i] = Unset /\ Count + 1 > Cap(span) THEN "reject"  \* upper bound
  ELSE IF k.uniq /\ c[i] = v THEN "free"             \* re-assigning an index its own value
  ELSE IF k.kind = "LIST" /\ i < Max2(1, k.lo) THEN "free"   \* 1-based vs bound-based reading of LIST indices
  ELSE "accept"
MustSet(i, v) == MustSetC(i, v, FALSE)

SetItem(i, v, a) ==
  /\ Indexed /\ i \in Idx /\ v \in Vals \cup Bads
  /\ c' = IF a THEN [c EXCEPT ![i] = v] ELSE c
  /\ UNCHANGED k

MustGet(i) ==
  IF k.kind = "ARRAY" /\ (i < k.lo \/ i > k.hi) THEN "reject"
  ELSE IF k.kind = "LIST" /\ (i < Min2(1, k.lo) \/ (~k.unb /\ i > k.hi)) THEN "reject"
  ELSE IF c[i] = Unset THEN (IF k.kind = "ARRAY" THEN (IF k.opt THEN "accept" ELSE "reject") ELSE "free")
  ELSE IF k.kind = "LIST" /\ i < Max2(1, k.lo) THEN "free"
  ELSE "accept"

GetItem(i, a) == /\ Indexed /\ i \in Idx /\ UNCHANGED vars

(* a value that compares equal to a held one (set membership is by equality, so Twin is "in" a SET that holds 1) *)
EqMember(v) == v \in ValueSet \/ (v = Twin /\ 1 \in ValueSet)
MustAddC(v, span) ==
  IF k.kind = "SET" /\ EqMember(v) THEN "free"              \* re-adding: a no-op or an error, never a new element
  ELSE IF v \in Bads THEN "reject"
  ELSE IF ~k.unb /\ Count + 1 > Cap(span) THEN "reject"
  ELSE "accept"
MustAdd(v) == MustAddC(v, FALSE)

Add(v, a) ==
  /\ ~Indexed /\ v \in Vals \cup Bads
  /\ c' = IF a /\ ~(k.kind = "SET" /\ EqMember(v)) THEN Append(c, v) ELSE c
  /\ UNCHANGED k

(* a verdict is consistent with an observed choice *)
Consistent(m, a) == (m = "accept" => a) /\ (m = "reject" => ~a)

(* the design: any implementation choice the oracle permits *)
Init == k = [kind |-> "none", lo |-> 0, hi |-> 0, unb |-> FALSE, uniq |-> FALSE, opt |-> FALSE] /\ c = <<>>
NextOp == \/ Indexed /\ \E i \in Idx, v \in Vals \cup Bads, a \in BOOLEAN : Consistent(MustSet(i, v), a) /\ SetItem(i, v, a)
          \/ Indexed /\ \E i \in Idx, a \in BOOLEAN : Consistent(MustGet(i), a) /\ GetItem(i, a)
          \/ ~Indexed /\ \E v \in Vals \cup Bads, a \in BOOLEAN : Consistent(MustAdd(v), a) /\ Add(v, a)

(* ------------------- queries after any operations ------------------- *)
Size      == IF k.kind = "ARRAY" THEN k.hi - k.lo + 1 ELSE Count
LoIndex   == IF k.kind = "ARRAY" THEN k.lo ELSE 1
HiIndex   == IF k.kind = "ARRAY" THEN k.hi ELSE Count
AllSet    == k.kind = "ARRAY" => \A i \in k.lo..k.hi : c[i] # Unset
ValueUnique == \A i, j \in Held : i # j => c[i] # c[j]

(* ------------------- the property on the design ------------------- *)
BoundOK  == k.kind \in {"LIST", "BAG", "SET"} /\ ~k.unb => Count <= k.hi
TypeOK   == \A i \in Held : c[i] \in Vals
UniqOK   == (k.kind = "SET" \/ (k.uniq /\ Indexed)) => ValueUnique
RangeOK  == k.kind = "ARRAY" => \A i \in Held : k.lo <= i /\ i <= k.hi
Inv == k.kind # "none" => BoundOK /\ TypeOK /\ UniqOK /\ RangeOK
=============================================================================

---- MODULE FrontEnd_Trace ----
(* monitor over recorded tool runs: one event per (input, tool, options) run *)
EXTENDS FrontEnd, TLC, Json, IOUtils
VARIABLES l, verdicts, ref    \* verdicts: rc-classes of the tools on the current input; ref: diagnostics of the plain run
TraceLog == ndJsonDeserialize(IOEnv.TRACE)
Ev == TraceLog[l]
Report2(what, dev) == PrintT("@@CASE " \o ToJson([line |-> l, what |-> what, dev |-> dev, ev |-> Ev]))
Step(e) == l <= Len(TraceLog) /\ Ev.e = e /\ l' = l + 1
Keep == UNCHANGED <<phase, errFlag, diags, rc, nfiles>>
Accepted(r, ds) == r = 0 /\ ~HasError(ds)
(* a new input: forget the verdicts of the previous one *)
TInput == Step("Input") /\ verdicts' = {} /\ ref' = <<>> /\ Keep
(* C04: one run of one tool on the current input *)
TRun == /\ Step("Run") /\ Keep /\ ref' = ref
        /\ verdicts' = verdicts \cup {Accepted(Ev.rc, Ev.diags)}
        /\ (~SmallStatus(Ev.rc)) => Report2("died-or-odd-status", "")
        /\ (~ExitIffError(Ev.diags, Ev.rc)) => Report2("exit-iff-error", "")
        /\ (~NoArtefactOnError(Ev.diags, Ev.rc, Ev.nfiles)) => Report2("artefact-on-error", "")
        /\ (~Verdict(Ev.expect, Ev.diags, Ev.rc)) => Report2("verdict", IF Ev.mclass = "lex_nonascii" THEN "Dev_NonAsciiSkipped" ELSE "")
        /\ (Ev.expect = "valid" /\ Ev.rc = 0 /\ Ev.nfiles = 0 /\ Ev.tool # "check-express") => Report2("no-artefact-on-success", "")
        /\ (Cardinality(verdicts') > 1) => Report2("tools-disagree", "")
(* C20: every diagnostic is attributed to the input file; quoted arguments are the offending lexemes *)
TDiag == /\ Step("Diags") /\ Keep /\ UNCHANGED <<verdicts, ref>>
         /\ (\E i \in 1..Len(Ev.diags) : Ev.diags[i].file # Ev.input) => Report2("file-attribution", "")
         /\ (\E i \in 1..Len(Ev.diags) : Ev.diags[i].emptyarg) => Report2("empty-argument", "")
         \* every diagnostic is an instance of a message of the table (src/express/error.c) with its arguments filled in
         \* completely: a line that matches no template has lost part of its text
         /\ (\E i \in 1..Len(Ev.diags) : Ev.diags[i].code = "") => Report2("diagnostic-matches-no-message", "")
         /\ (Ev.lexeme # "" /\ \E i \in 1..Len(Ev.diags) : Ev.diags[i].code = Ev.code /\ ~Ev.diags[i].haslexeme) => Report2("wrong-argument", "")
         \* an undeclared name at a using position: some ERROR names it
         /\ (Ev.mustquote /\ ~\E i \in 1..Len(Ev.diags) : Ev.diags[i].sev = "ERROR" /\ Ev.diags[i].quotes) => Report2("offender-not-quoted", "")
(* C20 on a schema set spread over several files (the used schemas are found as <schema>.exp): every diagnostic names *)
(* one of the files of the set, and the fault that was placed in the used schema aux is attributed to aux.exp        *)
TSplit == /\ Step("SplitDiags") /\ Keep /\ UNCHANGED <<verdicts, ref>>
          /\ (Ev.allowed # <<"ok">>) => Report2("file-attribution", "")
          /\ (Ev.faultfiles # <<"aux.exp">>) => Report2("fault-attributed-to-another-file", "")
(* C20: -w c / -i c change only whether class-c warnings are printed *)
Filter(ds, c) == SelectSeq(ds, LAMBDA d : ~(d.sev = "WARNING" /\ d.cls = c))
TRef == Step("Plain") /\ ref' = Ev.diags /\ Keep /\ UNCHANGED verdicts
TOpt == /\ Step("Opt") /\ Keep /\ UNCHANGED <<verdicts, ref>>
        /\ (Filter(Ev.diags, Ev.cls) # Filter(ref, Ev.cls)) => Report2("option-changes-other-diagnostics", "")
        /\ (Ev.rc # Ev.plainrc) => Report2("option-changes-verdict", "")
        /\ (Ev.opt = "-i" /\ \E i \in 1..Len(Ev.diags) : Ev.diags[i].sev = "WARNING" /\ Ev.diags[i].cls = Ev.cls) => Report2("ignored-class-still-printed", "")
        /\ (Ev.opt = "-w" /\ Ev.expectwarn /\ ~\E i \in 1..Len(Ev.diags) : Ev.diags[i].sev = "WARNING" /\ Ev.diags[i].cls = Ev.cls) => Report2("enabled-class-not-printed", "")
(* C20: the same formula on inputs with an ERROR fault: an option either names a warning class - then nothing but *)
(* class-c warnings may change, in particular not the verdict - or the tool refuses it outright (usage text,     *)
(* nothing processed).  Naming the class of an ERROR diagnostic must never make the error disappear.            *)
TOptFault == /\ Step("OptFault") /\ Keep /\ UNCHANGED <<verdicts, ref>>
             /\ (~Ev.refused /\ Ev.rc # Ev.plainrc) => Report2("option-changes-verdict", "")
             /\ (~Ev.refused /\ Filter(Ev.diags, Ev.cls) # Filter(ref, Ev.cls)) => Report2("option-changes-other-diagnostics", "")
             /\ (Ev.refused /\ Len(Ev.diags) > 0) => Report2("refused-option-but-input-processed", "")
TInit == Init /\ l = 1 /\ verdicts = {} /\ ref = <<>>
TNext == TInput \/ TRun \/ TDiag \/ TRef \/ TOpt \/ TOptFault \/ TSplit
TraceAccepted == TLCGet("stats").diameter - 1 = Len(TraceLog)
====

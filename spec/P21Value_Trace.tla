---- MODULE P21Value_Trace ----
EXTENDS P21Value, TLC, Json, IOUtils
VARIABLE l
TraceLog == ndJsonDeserialize(IOEnv.TRACE)
Ev == TraceLog[l]
TRoundTrip == /\ l <= Len(TraceLog) /\ Ev.e = "RoundTrip" /\ l' = l + 1
              /\ (~RoundTripOK(Ev.sev, Ev.sameIds, Ev.sameKeywords, Ev.valuesSame, Ev.sameHeader, Ev.secondIdentical)) =>
                    PrintT("@@CASE " \o ToJson([line |-> l, ev |-> Ev]))
TInit == l = 1
TNext == TRoundTrip
TraceAccepted == TLCGet("stats").diameter - 1 = Len(TraceLog)
====

CONSTANTS Files <- MFiles Offsets <- MOffsets SafeOffset = TRUE
SPECIFICATION Spec
CONSTRAINT Bound
INVARIANT AppendOK MaxOK
PROPERTY Refines

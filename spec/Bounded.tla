------------------------------ MODULE Bounded ------------------------------
(***************************************************************************)
(* Fixed-capacity tables and counters of the EXPRESS front end and of the   *)
(* Part 21 reader (properties C05/C06, restricted form): each table is a    *)
(* length variable with a capacity; a write of n units is either guarded    *)
(* (clipped, flushed or refused with a diagnostic) or not.  The model       *)
(* decides which input sizes are the boundary of each table; the verdict on *)
(* the implementation (SafeRun) comes from sanitizer-instrumented runs on   *)
(* exactly those inputs.                                                    *)
(***************************************************************************)
EXTENDS Integers, Sequences, FiniteSets

(* [name, side: "express" | "p21", cap: capacity in the unit the input is scaled in, guard: what the code does at the limit] *)
Tables ==
  { [name |-> "tail_remark",      side |-> "express", cap |-> 256,   guard |-> "clip"],      \* lexact.c last_comment_[256]
    [name |-> "embedded_remark",  side |-> "express", cap |-> 256,   guard |-> "clip"],
    [name |-> "scope_depth",      side |-> "express", cap |-> 20,    guard |-> "refuse"],    \* expparse.y scopes[MAX_SCOPE_DEPTH]
    [name |-> "diagnostics",      side |-> "express", cap |-> 100,   guard |-> "flush"],     \* error.c message heap
    [name |-> "identifier_len",   side |-> "express", cap |-> 1024,  guard |-> "dynamic"],
    [name |-> "string_literal",   side |-> "express", cap |-> 1024,  guard |-> "dynamic"],
    [name |-> "paren_depth",      side |-> "express", cap |-> 100,   guard |-> "dynamic"],
    [name |-> "attr_count",       side |-> "express", cap |-> 200,   guard |-> "dynamic"],
    \* not a buffer but a time bound: comparisons nested on the left, n deep, over a name that resolves (valid input) or
    \* does not (one diagnostic, not one per level or per path): the work must stay proportional to n
    [name |-> "rel_depth",        side |-> "express", cap |-> 40,    guard |-> "dynamic"],
    [name |-> "failed_rel_depth", side |-> "express", cap |-> 40,    guard |-> "dynamic"],
    \* exppp's in-memory string mode (exp2cxx prints every rule, initialiser and algorithm body through it): one piece of
    \* text per WHERE rule / function, in a buffer of 100000 bytes that is grown on demand
    [name |-> "rendered_where",   side |-> "express", cap |-> 100000, guard |-> "dynamic"],
    [name |-> "rendered_function", side |-> "express", cap |-> 100000, guard |-> "dynamic"],
    [name |-> "real_token",       side |-> "p21",     cap |-> 64,    guard |-> "dynamic"],   \* read_func.cc ReadReal
    [name |-> "int_token",        side |-> "p21",     cap |-> 64,    guard |-> "dynamic"],
    [name |-> "string_value",     side |-> "p21",     cap |-> 8192,  guard |-> "dynamic"],   \* BUFSIZ-sized scratch buffers
    [name |-> "keyword_len",      side |-> "p21",     cap |-> 64,    guard |-> "dynamic"],
    [name |-> "aggr_depth",       side |-> "p21",     cap |-> 100,   guard |-> "dynamic"],
    [name |-> "param_count",      side |-> "p21",     cap |-> 64,    guard |-> "dynamic"],
    [name |-> "enum_token",       side |-> "p21",     cap |-> 8192,  guard |-> "dynamic"],
    [name |-> "complex_parts",    side |-> "p21",     cap |-> 64,    guard |-> "dynamic"],
    [name |-> "comment_len",      side |-> "p21",     cap |-> 8192,  guard |-> "dynamic"],   \* read_func.h MAX_COMMENT_LENGTH (limit removed by fix)
    [name |-> "comment_in_value", side |-> "p21",     cap |-> 8192,  guard |-> "dynamic"],
    [name |-> "pre_header",       side |-> "p21",     cap |-> 8192,  guard |-> "dynamic"],   \* STEPfile::FindHeaderSection (was char buf[BUFSIZ])
    [name |-> "header_string",    side |-> "p21",     cap |-> 8192,  guard |-> "dynamic"],
    [name |-> "instance_id",      side |-> "p21",     cap |-> 19,    guard |-> "dynamic"] }  \* digits of an instance number

VARIABLES len       \* [table name -> units currently stored]
Names == {t.name : t \in Tables}
T(n) == CHOOSE t \in Tables : t.name = n
Init == len = [n \in Names |-> 0]
(* a write of k units into table n, as the (repaired) code performs it *)
Stored(t, k) == CASE t.guard = "clip"    -> IF k > t.cap - 1 THEN t.cap - 1 ELSE k
                  [] t.guard = "refuse"  -> IF k > t.cap - 1 THEN len[t.name] ELSE k
                  [] t.guard = "flush"   -> k % t.cap
                  [] t.guard = "dynamic" -> 0                      \* storage grows with the input: no fixed table
Write(n, k) == len' = [len EXCEPT ![n] = Stored(T(n), k)]
Sizes(t) == {t.cap - 1, t.cap, t.cap + 1, 2 * t.cap + 3}
Next == \E n \in Names : \E k \in Sizes(T(n)) : Write(n, k)
Spec == Init /\ [][Next]_len
NoOverflow == \A n \in Names : len[n] < T(n).cap

(* boundary families handed to the harness: the sizes around each capacity and one far beyond it *)
(* tables measured in bytes also get an input five orders of magnitude long; tables measured in nesting levels or *)
(* item counts stop at ten times their capacity (the work per item is not constant, so 10^5 items only tests patience) *)
ByteSized(t) == t.name \in {"tail_remark", "embedded_remark", "identifier_len", "string_literal", "real_token", "int_token",
                            "string_value", "keyword_len", "enum_token", "comment_len", "comment_in_value", "pre_header", "header_string"}
Family(deep) == UNION {{[table |-> t.name, side |-> t.side, n |-> k] :
                          k \in Sizes(t) \cup (IF deep THEN {10 * t.cap} \cup (IF ByteSized(t) THEN {100000} ELSE {}) ELSE {})} : t \in Tables}

(* inputs that are not exchange files at all: what the reader is handed may be empty, end anywhere in the        *)
(* structure, or not be a readable file                                                                        *)
Degenerate == {"empty", "magic_only", "header_only", "data_only", "no_endsec", "no_end_marker", "missing_file", "directory", "nul_bytes", "binary_noise"}

(* numerals at and beyond the ends of the number types: the reader converts them with library routines that signal   *)
(* range errors in their own ways (errno, exceptions, saturation); whatever they do, the run must stay a SafeRun      *)
ExtremeNumerals == {[kind |-> "real", text |-> t] : t \in {"1.0E400", "-1.0E400", "1.0E-400", "4.9E-324", "2.E-308", "1.7976931348623157E308",
                                                            "1.8E308", "0.0E999999999", "1.E2147483648", "1.E-2147483649"}}
                   \cup {[kind |-> "int", text |-> t] : t \in {"9223372036854775807", "9223372036854775808", "-9223372036854775809",
                                                               "99999999999999999999999999999999", "2147483648"}}

(* the same on the EXPRESS side: a text that ends inside a token - the scanner reads ahead for the end of a tail   *)
(* remark, a string, an encoded string, an embedded remark, a number - or that is not a schema text at all         *)
DegenerateExpress == {"empty", "no_final_newline", "eof_in_tail_remark", "eof_in_remark_after_semicolon", "eof_in_string",
                      "eof_in_encoded_string", "eof_in_embedded_remark", "eof_in_nested_remark", "eof_in_real", "eof_after_minus",
                      "eof_in_identifier", "nul_bytes", "binary_noise", "only_newlines", "missing_file", "directory"}

(* illegal entity combinations: the parts of an externally mapped instance may name entities the schema knows    *)
(* (CBASE, CPA, CPB of schemas/rt.exp), entities it does not know, the same entity twice, in any order; the       *)
(* reader sorts the names, drops the unknown ones and matches the rest against the supertype constraints         *)
PartNames == {"CBASE", "CPA", "CPB", "AAA", "BBB", "ZZZ"}
PartLists(maxlen) == UNION {[1..k -> PartNames] : k \in 1..maxlen}

(* verdict on one instrumented run of the implementation *)
SafeRun(rc, signalled, sanitizer, timedout) == ~signalled /\ ~sanitizer /\ ~timedout /\ rc \in 0..2
=============================================================================

------------------------------ MODULE LazyLoad ------------------------------
(***************************************************************************)
(* Refined model of lazyInstMgr::loadInstance / sectionReader::             *)
(* getRealInstance / STEPread and of inverse resolution (lazyRefs), as the  *)
(* code performs them since the repair of the re-entrancy defect (F-10a):   *)
(*  - a referenced instance is loaded recursively while its referrer is     *)
(*    being read;                                                           *)
(*  - an instance is registered (known) as soon as its object exists,       *)
(*    before its attributes are read, so that an instance reached again     *)
(*    through its own references is returned, not read a second time;       *)
(*  - the inverse attributes of every instance read are resolved only when  *)
(*    the outermost load has returned (pending), by loading the referrers   *)
(*    and looking at their - then complete - attributes.                    *)
(* Before the repair an instance was registered after its read (a reference *)
(* cycle recursed without end) and inverse resolution ran inside the        *)
(* recursion, on half-read referrers.                                       *)
(***************************************************************************)
EXTENDS Integers, Sequences, FiniteSets
CONSTANTS Ids, Graphs    \* Graphs: set of reference graphs [Ids -> Seq(Ids)] (references in attribute order)
VARIABLES Refs,      \* the file's graph (fixed by Init)
          HasInv,    \* the instances whose entity declares INVERSE attributes (fixed by Init)
          known,     \* _instancesLoaded: registered, possibly still being read
          done,      \* completely read
          stack,     \* frames [id, k]: reading reference number k of id
          pending,   \* _pendingInverse
          resolved,  \* instances whose inverse attributes have been resolved
          seenBy,    \* [x -> the referrers that were complete when x was resolved]
          root       \* the outer call
vars == <<Refs, HasInv, known, done, stack, pending, resolved, seenBy, root>>
Referrers(x) == {y \in Ids : \E j \in 1..Len(Refs[y]) : Refs[y][j] = x}
Init == /\ Refs \in Graphs /\ HasInv \in SUBSET Ids
        /\ known = {} /\ done = {} /\ stack = <<>> /\ pending = <<>> /\ resolved = {} /\ seenBy = [x \in Ids |-> {}] /\ root = 0
Push(i) == stack' = Append(stack, [id |-> i, k |-> 1]) /\ known' = known \cup {i}
(* loadInstance(i) from the application *)
Call(i) == /\ stack = <<>> /\ pending = <<>> /\ i \notin known
           /\ Push(i) /\ root' = i /\ UNCHANGED <<Refs, HasInv, done, pending, resolved, seenBy>>
(* STEPread of the instance on top of the stack: next reference, or end of its record *)
Read == /\ stack # <<>>
        /\ LET f == stack[Len(stack)] IN
           IF f.k > Len(Refs[f.id])
           THEN /\ done' = done \cup {f.id}
                /\ pending' = Append(pending, f.id)
                /\ stack' = SubSeq(stack, 1, Len(stack) - 1)
                /\ UNCHANGED known
           ELSE LET r == Refs[f.id][f.k]
                    adv == [stack EXCEPT ![Len(stack)].k = f.k + 1]
                IN IF r \in known
                   THEN stack' = adv /\ UNCHANGED <<known, done, pending>>       \* found (complete or being read)
                   ELSE /\ stack' = Append(adv, [id |-> r, k |-> 1]) /\ known' = known \cup {r}
                        /\ UNCHANGED <<done, pending>>
        /\ UNCHANGED <<Refs, HasInv, resolved, seenBy, root>>
(* at depth 0: resolve the inverse attributes of the instance queued last; a referrer not yet known is loaded first *)
Resolve == /\ stack = <<>> /\ pending # <<>>
           /\ LET x == pending[Len(pending)]
                  missing == Referrers(x) \ known
              IN IF x \in HasInv /\ missing # {}
                 THEN /\ \E y \in missing : Push(y)
                      /\ UNCHANGED <<done, pending, resolved, seenBy>>
                 ELSE /\ pending' = SubSeq(pending, 1, Len(pending) - 1)
                      /\ resolved' = resolved \cup {x}
                      /\ seenBy' = [seenBy EXCEPT ![x] = IF x \in HasInv THEN Referrers(x) \cap done ELSE {}]
                      /\ UNCHANGED <<known, done, stack>>
           /\ UNCHANGED <<Refs, HasInv, root>>
Next == (\E i \in Ids : Call(i)) \/ Read \/ Resolve
Spec == Init /\ [][Next]_vars /\ WF_vars(Read) /\ WF_vars(Resolve)

(* ---- what C10 and C11 need from the mechanism ---- *)
(* no instance is read twice at the same time, cycles included *)
NoReentry == \A a, b \in 1..Len(stack) : a # b => stack[a].id # stack[b].id
(* outside a read every registered instance is complete *)
QuietIsComplete == stack = <<>> => known = done
RECURSIVE Reach(_, _)
Reach(frontier, seen) == LET nxt == UNION {{Refs[x][j] : j \in 1..Len(Refs[x])} : x \in frontier} \ seen
                         IN IF nxt = {} THEN seen ELSE Reach(nxt, seen \cup nxt)
Quiet == stack = <<>> /\ pending = <<>>
(* C10: when a load has finished, the instance and its dependency closure are loaded *)
LoadsClosure == (Quiet /\ root # 0) => ({root} \cup Reach({root}, {})) \subseteq done
(* C11: every loaded instance has had its inverse attributes resolved, and they hold exactly its referrers, *)
(* each of which was completely read when it was examined                                                   *)
InverseExact == Quiet => /\ done \subseteq resolved
                         /\ \A x \in done \cap HasInv : seenBy[x] = Referrers(x)
Terminates == []<>Quiet
=============================================================================

------------------------------ MODULE LazyLoad ------------------------------
(***************************************************************************)
(* Refined model of lazyInstMgr::loadInstance / getRealInstance / STEPread  *)
(* (src/cllazyfile/lazyInstMgr.cc:109-154): a referenced instance is loaded *)
(* recursively while its referrer is being read; an instance is registered  *)
(* in _instancesLoaded only after its read has returned.                    *)
(***************************************************************************)
EXTENDS Integers, Sequences, FiniteSets
CONSTANTS Ids, Graphs    \* Graphs: set of reference graphs [Ids -> Seq(Ids)] (references in attribute order)
VARIABLES Refs, loaded, stack, root   \* Refs: the file's graph (fixed by Init); stack of frames [id, k]: reading reference number k of id; root: the outer call
vars == <<Refs, loaded, stack, root>>
Init == Refs \in Graphs /\ loaded = {} /\ stack = <<>> /\ root = 0
Call(i) == /\ stack = <<>> /\ i \notin loaded
           /\ stack' = <<[id |-> i, k |-> 1]>> /\ root' = i /\ UNCHANGED <<loaded, Refs>>
Step == /\ stack # <<>>
        /\ LET f == stack[Len(stack)] IN
           IF f.k > Len(Refs[f.id])
           THEN /\ loaded' = loaded \cup {f.id}                        \* _instancesLoaded.insert
                /\ stack' = SubSeq(stack, 1, Len(stack) - 1)
           ELSE LET r == Refs[f.id][f.k]
                    adv == [stack EXCEPT ![Len(stack)].k = f.k + 1]
                IN IF r \in loaded
                   THEN stack' = adv /\ UNCHANGED loaded               \* cache hit
                   ELSE stack' = Append(adv, [id |-> r, k |-> 1]) /\ UNCHANGED loaded
        /\ UNCHANGED <<root, Refs>>
Next == (\E i \in Ids : Call(i)) \/ Step
Spec == Init /\ [][Next]_vars /\ WF_vars(Step)
(* what C10 needs from the mechanism *)
NoReentry == \A a, b \in 1..Len(stack) : a # b => stack[a].id # stack[b].id
RECURSIVE Reach(_, _)
Reach(frontier, seen) == LET nxt == UNION {{Refs[x][j] : j \in 1..Len(Refs[x])} : x \in frontier} \ seen
                         IN IF nxt = {} THEN seen ELSE Reach(nxt, seen \cup nxt)
(* when an outer load has finished, exactly the instance and its dependency closure have been loaded on top of *)
(* what was loaded before (nothing else is touched)                                                            *)
LoadsClosure == (stack = <<>> /\ root # 0) => ({root} \cup Reach({root}, {})) \subseteq loaded
Terminates == []<>(stack = <<>>)
=============================================================================

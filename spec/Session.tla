------------------------------ MODULE Session ------------------------------
(***************************************************************************)
(* A STEPfile session (src/cleditor/STEPfile*.cc) over an instance manager: *)
(* the population is a sequence of instances in manager order.  This is the *)
(* *abstract* module: one action per public call, stating the result the    *)
(* properties C14 (append) and C16 (working-session round trip) demand.     *)
(* SessionImpl.tla refines it with the reader's two passes.                 *)
(*                                                                         *)
(* An instance is a record [id, ty, v, refs, st]: file id, entity type      *)
(* (or part-set name of a complex instance), one scalar value, the ordered  *)
(* references it makes (as ids) and its editing state (C complete,          *)
(* I incomplete, N new, D delete).                                          *)
(***************************************************************************)
EXTENDS Integers, Sequences, FiniteSets, SequencesExt

VARIABLES pop           \* Seq(instance): the session's population in manager order
svars == <<pop>>

IdsOf(p)  == {p[i].id : i \in 1..Len(p)}
MaxIdOf(p) == IF p = <<>> THEN -1 ELSE CHOOSE m \in IdsOf(p) : \A x \in IdsOf(p) : x <= m
Letters == {"C", "I", "N", "D"}

(* a conforming exchange file: distinct positive ids, every reference resolves inside the file *)
Conforming(F) == /\ \A i, j \in 1..Len(F) : i # j => F[i].id # F[j].id
                 /\ \A i \in 1..Len(F) : F[i].id > 0 /\ \A r \in 1..Len(F[i].refs) : F[i].refs[r] \in IdsOf(F)

ShiftInst(x, off) == [x EXCEPT !.id = @ + off, !.refs = [j \in 1..Len(@) |-> @[j] + off]]
Shift(F, off) == [i \in 1..Len(F) |-> ShiftInst(F[i], off)]
AsRead(F) == [i \in 1..Len(F) |-> [F[i] EXCEPT !.st = "C"]]     \* a conforming instance is read as complete

Init == pop = <<>>

(* ReadExchangeFile: the session holds exactly the file *)
ReadExchange(F) == Conforming(F) /\ pop' = AsRead(F)

(* AppendExchangeFile (C14): both populations whole, one common offset above every earlier id, *)
(* every reference of the appended file shifted by the same offset                             *)
AppendExchange(F, off) == /\ Conforming(F)
                          /\ off >= 0 /\ (pop # <<>> => off > MaxIdOf(pop))
                          /\ pop' = pop \o Shift(AsRead(F), off)

ChangeState(i, s) == /\ i \in 1..Len(pop) /\ s \in Letters
                     /\ pop' = [pop EXCEPT ![i].st = s]

(* WriteWorkingFile is a pure function of the session: every instance with its state letter *)
WorkingFileOf(p) == p
(* ReadWorkingFile (C16): same ids, types, values; states restored; exactly the deleted ones left out *)
Surviving(W) == SelectSeq(W, LAMBDA x : x.st # "D")
ReadWorking(W) == pop' = Surviving(W)
(* equality of populations in ids, types and values (states aside) *)
SameValues(p, q) == /\ Len(p) = Len(q)
                    /\ \A i \in 1..Len(p) : /\ p[i].id = q[i].id /\ p[i].ty = q[i].ty
                                              /\ p[i].v = q[i].v /\ p[i].refs = q[i].refs

Next == \/ \E F \in {} : ReadExchange(F)       \* instantiated by the MC/trace wrappers
Spec == Init /\ [][Next]_svars
=============================================================================

CONSTANTS Vals = {1, 2, 3} Bad = 99 MaxLo = 2 MaxSpan = 2
SPECIFICATION MCSpec
INVARIANT Inv
CHECK_DEADLOCK FALSE
CONSTRAINT MCBound

---- MODULE P21Value_Gen ----
EXTENDS P21Value, TLC, Json
CONSTANTS Extra        \* additional rounds beyond one pass over the longest pool
VARIABLES s, n
Init == s \in 1..Len(Shapes) /\ n \in 0..(Rounds(Shapes[s]) + Extra)
Next == UNCHANGED <<s, n>>
Emit == PrintT("@@CASE " \o ToJson([shape |-> s, n |-> n, inst |-> Instance(Shapes[s], n), header |-> Header(s + n),
                                    dev |-> IF Dev_UnsetAggregateElement(Shapes[s], n) THEN "Dev_UnsetAggregateElement" ELSE ""]))
====

---- MODULE P21Lex_Gen ----
(* every token string up to MaxLen over the alphabet of one kind, with the grammar's verdict *)
EXTENDS P21Lex, TLC, Json
CONSTANTS Kind, Sigma, MaxLen
VARIABLES w, q
Init == w = <<>> /\ q = "start"
Next == \E ch \in Sigma : w' = Append(w, ch) /\ q' = Delta(Kind, q, ch)
Bound == Len(w) <= MaxLen
Emit == (Len(w) > 0 /\ Len(w) <= MaxLen) =>
          PrintT("@@CASE " \o ToJson([w |-> w, iso |-> Accepting(Kind, q), normiso |-> InGrammar(Kind, Norm(Kind, w))]))
(* the automaton is a function of the string: running it afresh gives the incrementally computed state *)
Deterministic == Len(w) <= MaxLen => RunFrom(Kind, "start", w, 1) = q
====

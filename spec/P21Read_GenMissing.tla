---- MODULE P21Read_GenMissing ----
(* the complete decision table of C15: kind x OPTIONAL x mode x form x position x context *)
EXTENDS P21Read, TLC, Json
Cases ==
  {[ctx |-> "plain", kind |-> k, opt |-> o, strict |-> s, form |-> f, pos |-> p] :
      k \in Kinds \cup DefinedKinds, o \in BOOLEAN, s \in BOOLEAN, f \in {"$", ""}, p \in 1..3}
  \cup {[ctx |-> "inherited", kind |-> "int", opt |-> FALSE, strict |-> s, form |-> f, pos |-> p] :
      s \in BOOLEAN, f \in {"$", ""}, p \in 1..4}
  \cup {[ctx |-> "inherited", kind |-> "enum", opt |-> FALSE, strict |-> s, form |-> f, pos |-> 4] :
      s \in BOOLEAN, f \in {"$", ""}}
  \cup {[ctx |-> "complex", kind |-> (IF p \in {1, 2} THEN "int" ELSE IF p = 3 THEN "enum" ELSE "str"), opt |-> FALSE,
         strict |-> s, form |-> f, pos |-> p] : s \in BOOLEAN, f \in {"$", ""}, p \in 1..4}
VARIABLE c
Init == c \in Cases
Next == UNCHANGED c
Emit == PrintT("@@CASE " \o ToJson(c @@ [must |-> MissingOutcome(c.kind, c.opt, c.strict, c.form)]))
(* the table is total and consistent with the exit status: accepted outcomes exit 0, incomplete exits 1 *)
Sane == LET o == MissingOutcome(c.kind, c.opt, c.strict, c.form) IN
        /\ o \in {"accept_null", "accept_subst", "incomplete", "free"}
        /\ (c.opt => o = "accept_null")
        /\ \A sev \in -2..3, w \in {"null", "zero", "empty"} :
              Satisfies(o, c.kind, sev, w) => (ExitOf(sev) = (IF o = "incomplete" THEN 1 ELSE IF o = "free" THEN ExitOf(sev) ELSE 0))
====

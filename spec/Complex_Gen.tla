---- MODULE Complex_Gen ----
(* C08 case space: schema shapes (every ONEOF/AND/ANDOR tree of depth <= 2 over 2-3 subtypes, with and without an  *)
(* unmentioned subtype and an ABSTRACT root; two-level trees; a diamond; abstract chains) x every non-empty part set *)
EXTENDS Complex, TLC, Json
CONSTANTS Deep
Leaf(e) == [k |-> "leaf", e |-> e]
Op(o, kids) == [k |-> o, kids |-> kids]
None == [k |-> "none"]
Ops == {"oneof", "and", "andor"}
Flat3 == {Op(o, <<Leaf("a"), Leaf("b"), Leaf("c")>>) : o \in Ops}
Pair3 == {Op(o, <<Leaf(p[1]), Leaf(p[2])>>) : o \in Ops, p \in {<<"a", "b">>, <<"b", "c">>}}
Nest3 == {Op(o1, <<Leaf(p[1]), Op(o2, <<Leaf(p[2]), Leaf(p[3])>>)>>) :
             o1 \in Ops, o2 \in Ops, p \in (IF Deep THEN {<<"a", "b", "c">>, <<"c", "a", "b">>} ELSE {<<"a", "b", "c">>})}
Trees3 == Flat3 \cup Pair3 \cup {t \in Nest3 : Deep \/ t.k # t.kids[2].k}
Root3(t, abs) == [ents |-> <<"r", "a", "b", "c">>,
                  supers |-> [e \in {"r", "a", "b", "c"} |-> IF e = "r" THEN {} ELSE {"r"}],
                  abstract |-> IF abs THEN {"r"} ELSE {},
                  expr |-> [e \in {"r", "a", "b", "c"} |-> IF e = "r" THEN t ELSE None]]
TwoLevel(o1, o2) == [ents |-> <<"r", "a", "b", "a1", "a2">>,
                     supers |-> [e \in {"r", "a", "b", "a1", "a2"} |-> IF e = "r" THEN {} ELSE IF e \in {"a", "b"} THEN {"r"} ELSE {"a"}],
                     abstract |-> {},
                     expr |-> [e \in {"r", "a", "b", "a1", "a2"} |->
                                 IF e = "r" THEN Op(o1, <<Leaf("a"), Leaf("b")>>)
                                 ELSE IF e = "a" THEN Op(o2, <<Leaf("a1"), Leaf("a2")>>) ELSE None]]
Diamond(o) == [ents |-> <<"t", "a", "b", "d">>,
               supers |-> [e \in {"t", "a", "b", "d"} |-> IF e = "t" THEN {} ELSE IF e = "d" THEN {"a", "b"} ELSE {"t"}],
               abstract |-> {},
               expr |-> [e \in {"t", "a", "b", "d"} |-> IF e = "t" THEN Op(o, <<Leaf("a"), Leaf("b")>>) ELSE None]]
AbsChain == [ents |-> <<"r", "a", "a1">>,
             supers |-> [e \in {"r", "a", "a1"} |-> IF e = "r" THEN {} ELSE IF e = "a" THEN {"r"} ELSE {"a"}],
             abstract |-> {"r", "a"},
             expr |-> [e \in {"r", "a", "a1"} |-> None]]
NoExpr == [ents |-> <<"r", "a", "b">>,
           supers |-> [e \in {"r", "a", "b"} |-> IF e = "r" THEN {} ELSE {"r"}],
           abstract |-> {}, expr |-> [e \in {"r", "a", "b"} |-> None]]
(* an intermediate supertype with its own expression that the root's expression does not mention *)
Unmentioned(o2, abs) ==
  [ents |-> <<"r", "a", "b", "s", "x", "y">>,
   supers |-> [e \in {"r", "a", "b", "s", "x", "y"} |-> IF e = "r" THEN {} ELSE IF e \in {"a", "b", "s"} THEN {"r"} ELSE {"s"}],
   abstract |-> IF abs THEN {"s"} ELSE {},
   expr |-> [e \in {"r", "a", "b", "s", "x", "y"} |->
               IF e = "r" THEN Op("oneof", <<Leaf("a"), Leaf("b")>>)
               ELSE IF e = "s" THEN Op(o2, <<Leaf("x"), Leaf("y")>>) ELSE None]]
(* two groups under one operator, one of them an entity joined with a ONEOF: depth 3 over five subtypes *)
Wide(top, inner, mirror) ==
  LET g1 == Op("oneof", <<Leaf("k"), Leaf("l")>>)
      g2 == Op(inner, <<Leaf("m"), Op("oneof", <<Leaf("n"), Leaf("o")>>)>>)
  IN [ents |-> <<"q", "k", "l", "m", "n", "o">>,
      supers |-> [e \in {"q", "k", "l", "m", "n", "o"} |-> IF e = "q" THEN {} ELSE {"q"}],
      abstract |-> {},
      expr |-> [e \in {"q", "k", "l", "m", "n", "o"} |->
                  IF e = "q" THEN Op(top, IF mirror THEN <<g2, g1>> ELSE <<g1, g2>>) ELSE None]]
(* two trees that share a subtype: c below both roots, each root with its own constraint over c and another        *)
(* subtype, one of those with a subtype of its own (the matcher joins the roots' lists and backtracks across them)  *)
TwoRoots(o1, o2) ==
  [ents |-> <<"a", "b", "c", "d", "p", "q">>,
   supers |-> [e \in {"a", "b", "c", "d", "p", "q"} |->
                 CASE e = "b" -> {"a"} [] e = "c" -> {"a", "p"} [] e = "d" -> {"b"} [] e = "q" -> {"p"} [] OTHER -> {}],
   abstract |-> {},
   expr |-> [e \in {"a", "b", "c", "d", "p", "q"} |->
               IF e = "a" THEN Op(o1, <<Leaf("b"), Leaf("c")>>) ELSE IF e = "p" THEN Op(o2, <<Leaf("q"), Leaf("c")>>) ELSE None]]
(* a conjunction whose left operand still has a choice open below it (m is a supertype of its own, with a mentioned *)
(* and an unmentioned subtype, the mentioned one a supertype again) and whose right operand can fail: the matcher    *)
(* leaves the left operand undecided in its first pass and gives up at the right one                                 *)
Staged(inner, mabs) ==
  [ents |-> <<"r", "b", "c", "m", "n", "p", "q">>,
   supers |-> [e \in {"r", "b", "c", "m", "n", "p", "q"} |->
                 CASE e \in {"b", "c", "m"} -> {"r"} [] e \in {"n", "p"} -> {"m"} [] e = "q" -> {"n"} [] OTHER -> {}],
   abstract |-> IF mabs THEN {"m"} ELSE {},
   expr |-> [e \in {"r", "b", "c", "m", "n", "p", "q"} |->
               CASE e = "r" -> Op("and", <<Op(inner, <<Leaf("b"), Leaf("m")>>), Leaf("c")>>)
                 [] e = "m" -> Leaf("n") [] e = "n" -> Leaf("q") [] OTHER -> None]]
Shapes == {Staged(inner, mabs) : inner \in (IF Deep THEN Ops ELSE {"andor"}), mabs \in (IF Deep THEN BOOLEAN ELSE {TRUE})}
          \cup {TwoRoots(o1, o2) : o1 \in (IF Deep THEN Ops ELSE {"oneof"}), o2 \in (IF Deep THEN Ops ELSE {"andor", "oneof"})}
          \cup {Unmentioned(o2, abs) : o2 \in (IF Deep THEN Ops ELSE {"oneof"}), abs \in BOOLEAN}
          \cup {Wide(top, inner, mirror) : top \in (IF Deep THEN {"andor", "and"} ELSE {"andor"}),
                                          inner \in (IF Deep THEN {"and", "andor"} ELSE {"and"}), mirror \in BOOLEAN}
          \cup {Root3(t, abs) : t \in Trees3, abs \in (IF Deep THEN BOOLEAN ELSE {FALSE})}
          \cup {Root3(Op("oneof", <<Leaf("a"), Leaf("b"), Leaf("c")>>), TRUE), Root3(Op("andor", <<Leaf("a"), Leaf("b")>>), TRUE)}
          \cup {TwoLevel(o1, o2) : o1 \in (IF Deep THEN Ops ELSE {"oneof"}), o2 \in (IF Deep THEN Ops ELSE {"oneof", "and"})}
          \cup {Diamond(o) : o \in {"andor", "and"}} \cup {AbsChain, NoExpr}
CasesOf(sh) == {[s |-> S, legal |-> Legal(sh, S), dev |-> DevOf(sh, S), free |-> ~Connected(sh, S)] : S \in (SUBSET EntsOf(sh)) \ {{}}}
VARIABLE sh
Init == sh \in Shapes
Next == UNCHANGED sh
Emit == PrintT("@@CASE " \o ToJson([shape |-> sh, cases |-> CasesOf(sh)]))
(* sanity of Legal: closed under the supertype rule and independent of anything but the set *)
Sane == \A c \in CasesOf(sh) : c.legal => \A e \in c.s : sh.supers[e] \subseteq c.s
====

---- MODULE InstMgr_Gen ----
(* behaviour generator: every history of at most MaxLen calls is a case; each case carries the   *)
(* projection of the abstract state that InstMgr predicts after its last call (all prefixes are  *)
(* cases of their own, so every step of every history is compared once).                         *)
EXTENDS InstMgr, TLC, Json
CONSTANTS NObj, MaxExpl, MaxLen, AllStates
VARIABLE hist
GObj == 1..NObj
GNameOf == [o \in GObj |-> IF o % 2 = 1 THEN "Alpha" ELSE "Beta_X"]
GExplIds == 1..MaxExpl
GStates == IF AllStates THEN {"complete", "incomplete", "new", "delete"} ELSE {"complete", "new"}
Names == {"Alpha", "Beta_X"}
Proj == [objs  |-> arr,
         ids   |-> [i \in 1..Len(arr) |-> fid[arr[i]]],
         sts   |-> [i \in 1..Len(arr) |-> st[arr[i]]],
         maxId |-> maxId,
         freed |-> SetToSeq(freed),
         find  |-> [k \in 1..(maxId + 2) |-> FindIdx(k - 1)],
         ver   |-> [k \in 1..(maxId + 2) |-> Verify(k - 1, "Alpha")],
         byA   |-> [f \in 1..(Len(arr) + 1) |-> ByName("Alpha", f)],
         byB   |-> [f \in 1..(Len(arr) + 1) |-> ByName("Beta_X", f)],
         kwA   |-> KwCount("Alpha"), kwB |-> KwCount("Beta_X")]
Rec(a, x, y) == hist' = Append(hist, <<a, x, y>>)
GInit == Init /\ hist = <<<<"New", 0, IF owns THEN "own" ELSE "borrow">>>>
GNext == \/ \E o \in Obj, id \in ExplIds : SetId(o, id) /\ Rec("SetId", o, ToString(id))
         \/ \E o \in Obj, s \in States : AppendInst(o, s) /\ Rec("Append", o, s)
         \/ \E o \in Obj : Delete(o) /\ Rec("Delete", o, "node")
         \/ \E o \in Obj : Delete(o) /\ Rec("Delete", o, "inst")
         \/ \E o \in Obj, s \in States : ChangeState(o, s) /\ Rec("ChangeState", o, s)
         \/ ClearInstances /\ Rec("Clear", 0, "")
         \/ DeleteInstances /\ Rec("DeleteAll", 0, "")
         \/ NextFileId /\ Rec("NextFileId", 0, "")
         \/ \E w \in BOOLEAN : Recreate(w) /\ Rec("New", 0, IF w THEN "own" ELSE "borrow")
Bound == Len(hist) <= MaxLen + 1
Emit == Len(hist) <= MaxLen + 1 => PrintT("@@CASE " \o ToJson([h |-> hist, exp |-> Proj]))
====

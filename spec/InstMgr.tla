------------------------------ MODULE InstMgr ------------------------------
(***************************************************************************)
(* The instance manager (src/clstepcore/instmgr.cc, mgrnodearray.cc,       *)
(* mgrnode.cc): a master array of nodes in insertion order, a map from     *)
(* file id to node and a high-water mark for automatic ids.                *)
(*                                                                         *)
(* One action per public call.  The module is written as the property C13  *)
(* demands the manager to behave; where the code is known to do something  *)
(* else the difference is a named deviation action (prefix Dev_), disabled in *)
(* the property configuration.                                             *)
(***************************************************************************)
EXTENDS Integers, Sequences, FiniteSets, SequencesExt

CONSTANTS Obj,        \* pool of application-instance objects
          NameOf,     \* [Obj -> STRING] entity name of each object (fixed)
          ExplIds,    \* explicit ids a caller may store into an instance (> 0)
          States      \* node states a caller may pass

VARIABLES arr,        \* Seq(Obj): master array, insertion order of survivors
          fid,        \* [Obj -> Int]: id stored *in the instance* (0 = unassigned)
          st,         \* [Obj -> States \cup {"none"}] state of the node of a live object
          maxId,      \* high-water mark, -1 when emptied
          freed,      \* objects destroyed by the manager (must not be touched again)
          seen,       \* ghost: ids seen since the manager was last emptied
          owns        \* the manager destroys its instances when it is destroyed

vars == <<arr, fid, st, maxId, freed, seen, owns>>

Live      == Range(arr)
Usable    == Obj \ freed
Find(id)  == {o \in Live : fid[o] = id}          \* at most one, by UniqueIds
IndexIn(s, o) == CHOOSE i \in 1..Len(s) : s[i] = o
IndexOf(o) == IndexIn(arr, o)

Init == /\ arr = <<>> /\ fid = [o \in Obj |-> 0] /\ st = [o \in Obj |-> "none"]
        /\ maxId = -1 /\ freed = {} /\ seen = {} /\ owns \in BOOLEAN

(* the caller stores an explicit id into an instance that is not in the manager *)
SetId(o, id) == /\ o \in Usable \ Live /\ id \in ExplIds
                /\ fid' = [fid EXCEPT ![o] = id]
                /\ UNCHANGED <<arr, st, maxId, freed, seen, owns>>

(* NextFileId() as InstMgr::Append uses it: the high-water mark is raised   *)
(* and returned; 0 is never handed out because 0 means "no id assigned".   *)
AutoId(m) == IF m + 1 = 0 THEN 1 ELSE m + 1

(* Append: the three outcomes the property distinguishes                    *)
(*   - the instance is already in the manager: refused, nothing changes     *)
(*   - it has no id: it gets a fresh one                                    *)
(*   - its id is already carried by another live instance: renumbered       *)
AppendInst(o, s) ==
  /\ o \in Usable /\ s \in States
  /\ IF o \in Live
     THEN UNCHANGED vars
     ELSE LET id0  == fid[o]
              m1   == IF id0 = 0 THEN AutoId(maxId) ELSE maxId
              id1  == IF id0 = 0 THEN m1 ELSE id0
              dup  == Find(id1) # {}
              m2   == IF dup THEN AutoId(m1) ELSE m1
              id2  == IF dup THEN m2 ELSE id1
              m3   == IF id2 > m2 THEN id2 ELSE m2
          IN /\ fid' = [fid EXCEPT ![o] = id2]
             /\ arr' = Append(arr, o)
             /\ st'  = [st EXCEPT ![o] = s]
             /\ maxId' = m3
             /\ seen' = seen \cup {id2}
             /\ UNCHANGED <<freed, owns>>

(* Delete(node) and Delete(instance) end in the same state change: the node *)
(* leaves array and map, later nodes move down, the instance is destroyed.  *)
Delete(o) == /\ o \in Live
             /\ arr' = SelectSeq(arr, LAMBDA x : x # o)
             /\ freed' = freed \cup {o}
             /\ st' = [st EXCEPT ![o] = "none"]
             /\ UNCHANGED <<fid, maxId, seen, owns>>

ChangeState(o, s) == /\ o \in Live /\ s \in States
                     /\ st' = [st EXCEPT ![o] = s]
                     /\ UNCHANGED <<arr, fid, maxId, freed, seen, owns>>

(* ClearInstances: the manager forgets everything; instances survive and keep their ids *)
ClearInstances == /\ arr' = <<>> /\ maxId' = -1 /\ seen' = {}
                  /\ st' = [o \in Obj |-> "none"]
                  /\ UNCHANGED <<fid, freed, owns>>

(* DeleteInstances: as Clear, and every instance is destroyed (whether owning or not) *)
DeleteInstances == /\ arr' = <<>> /\ maxId' = -1 /\ seen' = {}
                   /\ freed' = freed \cup Live
                   /\ st' = [o \in Obj |-> "none"]
                   /\ UNCHANGED <<fid, owns>>

(* the public, mutating query *)
NextFileId == /\ maxId' = maxId + 1 /\ seen' = seen \cup {maxId + 1}
              /\ UNCHANGED <<arr, fid, st, freed, owns>>

(* ~InstMgr followed by a new manager: an owning manager destroys its instances *)
Recreate(w) == /\ w \in BOOLEAN
               /\ arr' = <<>> /\ maxId' = -1 /\ seen' = {} /\ owns' = w
               /\ freed' = IF owns THEN freed \cup Live ELSE freed
               /\ st' = [o \in Obj |-> "none"]
               /\ UNCHANGED fid

Next == \/ \E o \in Obj, id \in ExplIds : SetId(o, id)
        \/ \E o \in Obj, s \in States : AppendInst(o, s)
        \/ \E o \in Obj : Delete(o)
        \/ \E o \in Obj, s \in States : ChangeState(o, s)
        \/ ClearInstances \/ DeleteInstances \/ NextFileId
        \/ \E w \in BOOLEAN : Recreate(w)

Spec == Init /\ [][Next]_vars

(* ------------------------------ queries (pure) -------------------------- *)
Count           == Len(arr)
(* FindFileId(id): 1-based index of the live instance carrying id, 0 for none *)
FindIdx(id)     == IF Find(id) = {} THEN 0 ELSE IndexOf(CHOOSE o \in Find(id) : TRUE)
(* GetApplication_instance(name, start): first match at or after start (1-based), 0 for none *)
ByName(n, from) == LET I == {i \in from..Len(arr) : NameOf[arr[i]] = n}
                   IN IF I = {} THEN 0 ELSE CHOOSE i \in I : \A j \in I : i <= j
KwCount(n)      == Cardinality({i \in 1..Len(arr) : NameOf[arr[i]] = n})
(* VerifyEntity(id, name): 0 = no live instance carries id, 2 = the one that does has that entity   *)
(* name, 1 = it has another name (the caller then looks at the subtypes)                            *)
Verify(id, n)   == IF Find(id) = {} THEN 0
                   ELSE IF NameOf[CHOOSE o \in Find(id) : TRUE] = n THEN 2 ELSE 1

(* ------------------------------ the property ---------------------------- *)
NoDupInArr == \A i, j \in 1..Len(arr) : i # j => arr[i] # arr[j]
UniqueIds  == \A p, q \in Live : p # q => fid[p] # fid[q]
CountOK    == Count = Cardinality(Live)
FindOK     == \A o \in Live : FindIdx(fid[o]) = IndexOf(o)
MaxOK      == \A o \in Live : maxId >= fid[o]
SeenOK     == \A o \in Live : fid[o] \in seen
NoLiveFreed == Live \cap freed = {}
(* ids handed out automatically are fresh and above every id seen since the last emptying *)
FreshOK    == [][\A o \in Obj, s \in States :
                   (AppendInst(o, s) /\ o \notin Live /\ (fid[o] = 0 \/ Find(fid[o]) # {}))
                      => (fid'[o] \notin seen /\ fid'[o] # 0 /\ \A x \in seen : fid'[o] > x)]_vars
(* survivors keep their relative order under every operation that does not empty the manager *)
OrderOK    == [][arr' # <<>> => \A i, j \in 1..Len(arr) :
                   (i < j /\ arr[i] \in Range(arr') /\ arr[j] \in Range(arr'))
                      => IndexIn(arr', arr[i]) < IndexIn(arr', arr[j])]_vars
TypeOK     == /\ arr \in Seq(Obj) /\ maxId \in Int /\ freed \subseteq Obj
Inv == TypeOK /\ NoDupInArr /\ UniqueIds /\ CountOK /\ FindOK /\ MaxOK /\ SeenOK /\ NoLiveFreed
=============================================================================

SPECIFICATION Spec
INVARIANT NoOverflow

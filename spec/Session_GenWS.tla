---- MODULE Session_GenWS ----
(* scenario generator for C16: sessions (a conforming or genuinely incomplete exchange file, then a state    *)
(* assignment per instance) to be saved as working-session files and loaded back.  Deleted instances are not *)
(* referenced by survivors (the statement does not say what such a reference becomes).                        *)
EXTENDS Integers, Sequences, FiniteSets, TLC, Json
CONSTANTS NFiles
I(a, t, val, r) == [id |-> a, ty |-> t, v |-> val, refs |-> r, st |-> "C"]
Files == << <<I(1, "leaf", 7, <<>>), I(2, "node", 8, <<1>>), I(3, "sn", 5, <<>>), I(4, "sn", 6, <<1>>)>>,
            <<I(10, "leaf", 1, <<>>), I(20, "h_items", 0, <<10, 10>>), I(30, "cx", 3, <<10>>), I(5, "node", 2, <<>>)>>,
            <<I(3, "sn", 1, <<>>), I(2, "sn", 2, <<>>), I(1, "leaf", 3, <<>>)>>,
            <<I(1, "node", 1, <<2>>), I(2, "node", 2, <<1>>), I(1000, "h_sels", 0, <<1, 2>>), I(7, "h_sel", 0, <<2>>)>> >>
Letters == {"C", "I", "N", "D"}
VARIABLE sc
Referenced(F, i) == \E j \in 1..Len(F) : j # i /\ \E r \in 1..Len(F[j].refs) : F[j].refs[r] = F[i].id
OKAssign(F, a) == \A i \in 1..Len(F) : a[i] = "D" =>
                     \A j \in 1..Len(F) : (\E r \in 1..Len(F[j].refs) : F[j].refs[r] = F[i].id) => a[j] = "D"
Init == \E k \in 1..NFiles : \E a \in [1..Len(Files[k]) -> Letters] :
           OKAssign(Files[k], a) /\ sc = [file |-> Files[k], states |-> a]
Next == UNCHANGED sc
Emit == PrintT("@@CASE " \o ToJson(sc))
====

CONSTANTS NObj = 3 MaxExpl = 2 MaxLen = 3 AllStates = FALSE
  Obj <- GObj
  NameOf <- GNameOf
  ExplIds <- GExplIds
  States <- GStates
INIT GInit
NEXT GNext
CONSTRAINT Bound
INVARIANT Emit

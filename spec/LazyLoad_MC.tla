---- MODULE LazyLoad_MC ----
(* every reference graph over N instances in which an instance makes at most two references; *)
(* Cyclic = FALSE: references only to smaller ids (a DAG); TRUE: to any instance             *)
EXTENDS LazyLoad, TLC
CONSTANTS N, Cyclic
MIds == 1..N
Targets(i) == IF Cyclic THEN MIds ELSE 1..(i - 1)
SeqsOver(S) == {<<>>} \cup {<<x>> : x \in S} \cup {<<x, y>> : x \in S, y \in S}
MGraphs == {g \in [MIds -> UNION {SeqsOver(Targets(i)) : i \in MIds}] : \A i \in MIds : g[i] \in SeqsOver(Targets(i))}
Depth == Len(stack) <= N + 2
====

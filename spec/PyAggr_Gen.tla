---- MODULE PyAggr_Gen ----
(* scenario generator: every legal declaration within the bounds and every operation sequence of the given     *)
(* length over the index window and the value pool (operations, not outcomes: the outcome is the container's). *)
EXTENDS Integers, Sequences, FiniteSets, TLC, Json
(* (Bases / Concrete are copied from PyAggr.tla: this wrapper does not instantiate the module) *)
Bases == <<"INTEGER", "REAL", "STRING">>
Concrete(b) == CASE b = "INTEGER" -> <<"0", "1", "-1", "7">> [] b = "REAL" -> <<"0.0", "1.5", "-2.5", "1e10">> [] b = "STRING" -> <<"", "a", "b", "ab">>
CONSTANTS Vals, Bad, MaxLo, MaxSpan, MaxLen, TwinMax
VARIABLES cfg, ops
Kinds == {"ARRAY", "LIST", "BAG", "SET"}
(* Bad + 1 is PyAggr!Twin: the ill-typed value that compares equal to the well-typed value 1 *)
Legal(r) == /\ (r.kind = "ARRAY" => ~r.unb /\ r.lo <= r.hi)
            /\ (r.kind # "ARRAY" => r.lo >= 0 /\ (r.unb \/ r.lo <= r.hi) /\ ~r.opt)
            /\ (r.kind \in {"BAG", "SET"} => ~r.uniq)
Cfgs == {r \in [kind : Kinds, lo : 0..MaxLo, hi : 0..(MaxLo + MaxSpan), unb : BOOLEAN, uniq : BOOLEAN, opt : BOOLEAN] :
           Legal(r) /\ (r.unb => r.hi = 0) /\ (~r.unb => r.hi <= r.lo + MaxSpan)}
Idx(r) == (r.lo - 1)..((IF r.unb THEN r.lo + 2 ELSE r.hi) + 1)
IllTyped == IF TwinMax > 0 THEN {Bad, Bad + 1} ELSE {Bad}
Ops(r) == IF r.kind \in {"ARRAY", "LIST"}
          THEN {[op |-> "set", i |-> i, v |-> v] : i \in Idx(r), v \in Vals \cup IllTyped}
               \cup {[op |-> "get", i |-> i, v |-> 0] : i \in Idx(r)}
          ELSE {[op |-> "add", i |-> 0, v |-> v] : v \in Vals \cup IllTyped}
Len4(r) == IF r.kind \in {"ARRAY", "LIST"} THEN MaxLen ELSE MaxLen + 3
Init == cfg \in Cfgs /\ ops = <<>>
Next == \E o \in Ops(cfg) : ops' = Append(ops, o) /\ UNCHANGED cfg
(* the twin appears at most TwinMax times per scenario (at every position, after and before every pattern of well-typed values) *)
Bound == Len(ops) <= Len4(cfg) /\ Cardinality({i \in DOMAIN ops : ops[i].v = Bad + 1}) <= TwinMax
(* the base type rotates with the scenario (every declaration and every operation pattern meets every base over the sequences) *)
RECURSIVE Sum(_, _)
Sum(q, i) == IF i > Len(q) THEN 0 ELSE q[i].i * i + q[i].v + Sum(q, i + 1)
BaseOf == Bases[((cfg.lo + cfg.hi + Sum(ops, 1)) % Len(Bases)) + 1]
Emit == Len(ops) = Len4(cfg) => PrintT("@@CASE " \o ToJson([cfg |-> cfg, ops |-> ops, base |-> BaseOf, concrete |-> Concrete(BaseOf)]))
====

---------------------------- MODULE SessionImpl ----------------------------
(***************************************************************************)
(* Refined model of STEPfile::ReadExchangeFile / AppendExchangeFile         *)
(* (STEPfile.cc AppendFile, ReadData1, ReadData2): SetFileIdIncrement,      *)
(* pass 1 creates every instance under id + increment, pass 2 resolves      *)
(* every reference r as FindFileId(r + increment).                          *)
(* Checked against the abstract module Session by refinement.               *)
(***************************************************************************)
EXTENDS Integers, Sequences, FiniteSets, SequencesExt

CONSTANTS Files,      \* set of abstract exchange files
          Offsets,    \* candidate increments
          SafeOffset  \* TRUE: the increment exceeds every earlier id (what SetFileIdIncrement guarantees)

VARIABLES mgr,        \* Seq(instance) in manager order; refs are ids, 0 = unresolved
          maxId, phase, F, k, pos, pre
vars == <<mgr, maxId, phase, F, k, pos, pre>>

IdsOf(m) == {m[i].id : i \in 1..Len(m)}
FindIdx(m, id) == {i \in 1..Len(m) : m[i].id = id}

Init == mgr = <<>> /\ maxId = -1 /\ phase = "idle" /\ F = <<>> /\ k = 0 /\ pos = 0 /\ pre = <<>>

ReadFile(f) == /\ phase = "idle"
               /\ pre' = mgr                                     \* ghost: the population before the call
               /\ mgr' = <<>> /\ maxId' = -1                     \* ClearInstances
               /\ F' = f /\ k' = 0 /\ pos' = 1 /\ phase' = "p1"

AppendFile(f, off) == /\ phase = "idle"
                      /\ IF maxId < 0 THEN off = 0 ELSE (SafeOffset => off > maxId)   \* SetFileIdIncrement
                      /\ pre' = mgr /\ F' = f /\ k' = off /\ pos' = 1 /\ phase' = "p1"
                      /\ UNCHANGED <<mgr, maxId>>

Pass1 == /\ phase = "p1"
         /\ IF pos > Len(F) THEN phase' = "p2" /\ pos' = 1 /\ UNCHANGED <<mgr, maxId>>
            ELSE LET nid == F[pos].id + k IN
                 /\ pos' = pos + 1 /\ phase' = "p1"
                 /\ IF FindIdx(mgr, nid) # {} THEN UNCHANGED <<mgr, maxId>>       \* "already exists": instance lost
                    ELSE /\ mgr' = Append(mgr, [F[pos] EXCEPT !.id = nid, !.refs = <<>>, !.st = "C"])
                         /\ maxId' = IF nid > maxId THEN nid ELSE maxId
         /\ UNCHANGED <<F, k, pre>>

Pass2 == /\ phase = "p2"
         /\ IF pos > Len(F) THEN phase' = "idle" /\ pos' = 0 /\ UNCHANGED mgr
            ELSE LET nid == F[pos].id + k
                     tgt == FindIdx(mgr, nid)
                     res == [j \in 1..Len(F[pos].refs) |->
                               IF FindIdx(mgr, F[pos].refs[j] + k) # {} THEN F[pos].refs[j] + k ELSE 0]
                 IN /\ pos' = pos + 1 /\ phase' = "p2"
                    /\ IF tgt = {} THEN UNCHANGED mgr
                       ELSE LET i == CHOOSE x \in tgt : TRUE IN mgr' = [mgr EXCEPT ![i].refs = res]
         /\ UNCHANGED <<maxId, F, k, pre>>

Next == (\E f \in Files : ReadFile(f)) \/ (\E f \in Files, off \in Offsets : AppendFile(f, off)) \/ Pass1 \/ Pass2
Spec == Init /\ [][Next]_vars

(* ---- refinement: between calls the session is the manager; during a call it is still the old one ---- *)
absPop == IF phase = "idle" THEN mgr ELSE pre
Abs == INSTANCE Session WITH pop <- absPop
AbsNext == \/ \E f \in Files : Abs!ReadExchange(f)
           \/ \E f \in Files, off \in Offsets : Abs!AppendExchange(f, off)
Refines == [][AbsNext]_absPop
(* C14 stated directly on the refined state *)
AppendOK == (phase = "idle" /\ F # <<>>) => mgr = pre \o Abs!Shift(Abs!AsRead(F), k) \/ (k = 0 /\ mgr = Abs!AsRead(F))
MaxOK == phase = "idle" => maxId = Abs!MaxIdOf(mgr)
=============================================================================

CONSTANTS NObj = 12 MaxExpl = 40
  Obj <- TObj
  NameOf <- TNameOf
  ExplIds <- TExplIds
  States <- TStates
INIT TInit
NEXT TNext
INVARIANT Inv
POSTCONDITION TraceAccepted
CHECK_DEADLOCK FALSE

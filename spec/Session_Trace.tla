---- MODULE Session_Trace ----
(* trace validation of recorded STEPfile sessions against the abstract Session module.  The append offset is   *)
(* whatever the implementation chose (logged): it must satisfy the action's guard (C14: above every earlier id). *)
EXTENDS Session, TLC, Json, IOUtils
VARIABLE l
TraceLog == ndJsonDeserialize(IOEnv.TRACE)
Ev == TraceLog[l]
IsEvent(e) == l <= Len(TraceLog) /\ Ev.e = e /\ l' = l + 1
Clean == Ev.sev >= 2                          \* SEVERITY_USERMSG or SEVERITY_NULL
TReset == IsEvent("Reset") /\ pop' = <<>>
TRead == IsEvent("Read") /\ ReadExchange(Ev.file) /\ pop' = Ev.pop /\ Clean
TAppend == IsEvent("Append") /\ AppendExchange(Ev.file, Ev.incr) /\ pop' = Ev.pop /\ Clean
(* C16 traces start from whatever the first session holds (reading it is judged by C14/C01, not here) *)
TGiven == IsEvent("Given") /\ pop' = Ev.pop
TState == IsEvent("State") /\ ChangeState(Ev.i, Ev.s) /\ pop' = Ev.pop
(* C16: the written working file is the session with its state letters; loading it restores the survivors *)
(* with ids, types, values and states, and leaves out exactly the deleted ones                            *)
TReadWorking == IsEvent("ReadWorking") /\ Ev.wfile = WorkingFileOf(pop) /\ ReadWorking(Ev.wfile) /\ pop' = Ev.pop
(* ... the values equal those of an exchange round trip of the same instances, and saving again gives the  *)
(* same bytes (time stamp and the deleted instances' lines aside)                                          *)
TCompare == /\ IsEvent("Compare")
            /\ IdsOf(pop) \subseteq IdsOf(Ev.xpop)
            /\ SameValues(SelectSeq(Ev.xpop, LAMBDA x : x.id \in IdsOf(pop)), pop)
            /\ Ev.resave = TRUE /\ UNCHANGED pop
TInit == Init /\ l = 1
TNext == TReset \/ TRead \/ TAppend \/ TGiven \/ TState \/ TReadWorking \/ TCompare
TraceAccepted == TLCGet("stats").diameter - 1 = Len(TraceLog)
====

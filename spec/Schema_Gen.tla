---- MODULE Schema_Gen ----
(* emits the valid schema family and, per schema, its single-fault mutants *)
EXTENDS Schema, TLC, Json
CONSTANTS Deep, WithMutants
VARIABLE c
Init == c \in Choices(Deep)
Next == UNCHANGED c
Emit == PrintT("@@CASE " \o ToJson([choice |-> c, schema |-> Valid(c),
                                    order |-> [i \in 1..Len(Valid(c).ents) |-> AttrOrder(Valid(c), Valid(c).ents[i].name)],
                                    files |-> Files(Valid(c)),
                                    pymodule |-> PyModule(Valid(c)),
                                    \* (the deviation predicts the exact parameter list: every supertype path in turn, shared ancestors repeated)
                                    pydiamond |-> {[name |-> PyName(Valid(c).ents[i].name),
                                                    params |-> [j \in 1..Len(RawOrder(Valid(c), Valid(c).ents[i].name)) |-> PyName(RawOrder(Valid(c), Valid(c).ents[i].name)[j].name)]] :
                                                   i \in {j \in 1..Len(Valid(c).ents) : Dev_PyCtorRepeatsSharedAncestor(Valid(c), Valid(c).ents[j].name)}},
                                    pykeywords |-> Dev_PyKeywordUnescaped(Valid(c)),
                                    pyredecl |-> {[name |-> PyName(Valid(c).ents[i].name), params |-> PyRedeclParams(Valid(c), Valid(c).ents[i].name)] :
                                                  i \in {j \in 1..Len(Valid(c).ents) : Dev_PyRedeclaredIsOwnParameter(Valid(c), Valid(c).ents[j].name)}},
                                    dict |-> Dictionary(Valid(c)),
                                    devtypes |-> {[name |-> Valid(c).types[i].name,
                                                   dev |-> "Dev_NestedAggrNotRegistered"] :
                                                  i \in {j \in 1..Len(Valid(c).types) :
                                                    Dev_NestedAggrNotRegistered(Valid(c), Valid(c).types[j])}},
                                    \* (the mutants are written for the plain names and for schemas with at least three entities)
                                    mutants |-> IF WithMutants /\ "nm" \notin DOMAIN c /\ c.inh \notin {"single", "noents"} THEN Mutants(c) \cup LexMutants \cup Stretched(c) ELSE {}]))
(* AttrOrder has no duplicates and ends with the entity's own attributes *)
OrderSane == \A i \in 1..Len(Valid(c).ents) :
               LET o == AttrOrder(Valid(c), Valid(c).ents[i].name) e == Valid(c).ents[i] IN
               /\ \A a, b \in 1..Len(o) : a # b => o[a] # o[b]
               /\ \A j \in 1..Len(e.attrs) : o[Len(o) - Len(e.attrs) + j] = [owner |-> e.name, name |-> e.attrs[j].name]
====

CONSTANTS Vals = {1, 2, 3, 4} Bad = 99
INIT TInit
NEXT TNext
POSTCONDITION TraceAccepted
CHECK_DEADLOCK FALSE

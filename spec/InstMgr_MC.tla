---- MODULE InstMgr_MC ----
(* design check of InstMgr for a small pool: every reachable state, C13's clauses as invariants/action properties *)
EXTENDS InstMgr, TLC
CONSTANTS NObj, MaxExpl, MaxMax
MCObj == 1..NObj
MCNameOf == [o \in MCObj |-> IF o % 2 = 1 THEN "Alpha" ELSE "Beta_X"]
MCExplIds == 1..MaxExpl
MCStates == {"complete", "new"}
Bound == maxId <= MaxMax
(* by-name look-up returns the first match at or after the start index *)
ByNameOK == \A n \in {"Alpha", "Beta_X"} : \A from \in 1..(Len(arr) + 1) :
              LET r == ByName(n, from) IN
                /\ (r = 0 => \A i \in from..Len(arr) : NameOf[arr[i]] # n)
                /\ (r # 0 => r >= from /\ NameOf[arr[r]] = n /\ \A i \in from..(r - 1) : NameOf[arr[i]] # n)
====

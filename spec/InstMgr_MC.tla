---- MODULE InstMgr_MC ----
(* design check of InstMgr for a small pool: every reachable state, C13's clauses as invariants/action properties *)
EXTENDS InstMgr, TLC
CONSTANTS NObj, MaxExpl, MaxMax
MCObj == 1..NObj
MCNameOf == [o \in MCObj |-> IF o % 2 = 1 THEN "Alpha" ELSE "Beta_X"]
MCExplIds == 1..MaxExpl
MCStates == {"complete", "new"}
Bound == maxId <= MaxMax
(* by-name look-up returns the first match at or after the start index *)
ByNameOK == \A n \in {"Alpha", "Beta_X"} : \A from \in 1..(Len(arr) + 1) :
              LET r == ByName(n, from) IN
                /\ (r = 0 => \A i \in from..Len(arr) : NameOf[arr[i]] # n)
                /\ (r # 0 => r >= from /\ NameOf[arr[r]] = n /\ \A i \in from..(r - 1) : NameOf[arr[i]] # n)
(* VerifyEntity agrees with look-up by id: 0 exactly for the ids FindFileId does not know, 2 exactly when the *)
(* instance found carries the name asked for, 1 otherwise; it never depends on an instance's state            *)
VerifyOK == \A id \in 0..(maxId + 1) : \A n \in {"Alpha", "Beta_X"} :
              /\ (Verify(id, n) = 0) = (FindIdx(id) = 0)
              /\ (Verify(id, n) = 2) = (FindIdx(id) # 0 /\ NameOf[arr[FindIdx(id)]] = n)
              /\ Verify(id, n) \in {0, 1, 2}
====

---- MODULE InstMgr_Trace ----
(* trace validation: every logged call of the real manager must be a step of InstMgr whose primed   *)
(* state projects to what was observed; query results are compared with the module's operators.     *)
EXTENDS InstMgr, TLC, Json, IOUtils
CONSTANTS NObj, MaxExpl
VARIABLE l
TraceLog == ndJsonDeserialize(IOEnv.TRACE)
TObj == 1..NObj
TNameOf == [o \in TObj |-> IF o % 2 = 1 THEN "Alpha" ELSE "Beta_X"]
TExplIds == 1..MaxExpl
TStates == {"complete", "incomplete", "new", "delete"}
Ev == TraceLog[l]
IsEvent(e) == l <= Len(TraceLog) /\ Ev.e = e /\ l' = l + 1
(* observed projection = primed abstract state; observed query results = the module's operators *)
Obs == /\ Len(arr') = Len(Ev.objs) /\ maxId' = Ev.maxId
       /\ \A i \in 1..Len(arr') : /\ arr'[i] = Ev.objs[i] /\ fid'[arr'[i]] = Ev.ids[i]
                                  /\ st'[arr'[i]] = Ev.sts[i] /\ Ev.idx[i] = i
       /\ freed' = {Ev.freed[i] : i \in 1..Len(Ev.freed)}
       /\ Len(Ev.find) = maxId' + 2
       /\ \A k \in 1..Len(Ev.find) : Ev.find[k] = FindIdx(k - 1)'
       /\ Len(Ev.ver) = maxId' + 2
       /\ \A k \in 1..Len(Ev.ver) : Ev.ver[k] = Verify(k - 1, "Alpha")'
       /\ \A f \in 1..Len(Ev.byA) : Ev.byA[f] = ByName("Alpha", f)' /\ Ev.byB[f] = ByName("Beta_X", f)'
       /\ Ev.kwA = KwCount("Alpha")' /\ Ev.kwB = KwCount("Beta_X")'
TNew == IsEvent("New") /\ Recreate(Ev.own) /\ Obs
TSetId == IsEvent("SetId") /\ SetId(Ev.o, Ev.id) /\ Obs
TAppend == IsEvent("Append") /\ AppendInst(Ev.o, Ev.s) /\ Obs
TDelete == IsEvent("Delete") /\ Delete(Ev.o) /\ Obs
TChange == IsEvent("ChangeState") /\ ChangeState(Ev.o, Ev.s) /\ Obs
TClear == IsEvent("Clear") /\ ClearInstances /\ Obs
TDeleteAll == IsEvent("DeleteAll") /\ DeleteInstances /\ Obs
TNextId == IsEvent("NextFileId") /\ NextFileId /\ Obs
(* a fresh set of objects starts with every execution: the first New of an execution resets the pool *)
TReset == IsEvent("Reset") /\ arr' = <<>> /\ fid' = [o \in Obj |-> 0] /\ st' = [o \in Obj |-> "none"]
          /\ maxId' = -1 /\ freed' = {} /\ seen' = {} /\ owns' = FALSE
TInit == Init /\ owns = FALSE /\ l = 1
TNext == TReset \/ TNew \/ TSetId \/ TAppend \/ TDelete \/ TChange \/ TClear \/ TDeleteAll \/ TNextId
TraceAccepted == TLCGet("stats").diameter - 1 = Len(TraceLog)
====

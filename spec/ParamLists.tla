---- MODULE ParamLists ----
(* Formal parameter lists of procedures and functions (C07: "procedures, functions ... are declared the same").   *)
(* The printer groups adjacent parameters of one type into `a, b : t`; whether a parameter is VAR and what its     *)
(* type is must survive for every parameter, whatever its neighbours are.  Every list of three parameters over     *)
(* {VAR, by value} x two named types x a simple type is a case; the first half as procedures, the second as        *)
(* functions (which take no VAR parameters).                                                                     *)
EXTENDS Naturals, Sequences, TLC, Json
Types == {"lm", "ctr", "REAL"}
Kinds == {[var |-> v, ty |-> t] : v \in BOOLEAN, t \in Types}
VARIABLE pl
Init == pl \in [1..3 -> Kinds]
Next == UNCHANGED pl
Emit == PrintT("@@CASE " \o ToJson([ps |-> pl]))
====

------------------------------ MODULE P21Value ------------------------------
(***************************************************************************)
(* Attribute values of an exchange file and what a read-then-write must     *)
(* preserve (property C01).  The case space: for each entity shape of       *)
(* schemas/rt.exp, parameter lists drawn from per-kind pools of literal     *)
(* forms (every spelling the Part 21 grammar allows for the kind), in       *)
(* several token spellings of the file.  The verdict is RoundTripOK.        *)
(***************************************************************************)
EXTENDS Integers, Sequences

(* pools of literal forms per kind (token texts; #1 is always a TGT instance) *)
Pool(k) ==
  CASE k = "int"  -> <<"0", "7", "-7", "+7", "007", "2147483648", "-9223372036854775806">>
    [] k = "real" -> <<"0.", "1.5", "-1.5", "+1.5", "1.E5", "1.5E-3", "2.5E+10", "1.0E-300", "123456789.012345", "0.1", "1.E+300",
                     \* below the smallest normalised double (2.2250738585072014E-308): still values of REAL, still 15 digits
                     "2.E-308", "-1.5E-308", "2.225E-308", "1.E-310">>
    [] k = "num"  -> <<"3.5", "7.", "-2.5E3">>
    [] k = "str"  -> <<"''", "'abc'", "'it''s'", "'back\\\\slash'", "'\\S\\A'", "'\\X\\0A'", "'with #1 (;) /* x */'", "'$'", "'*'">>
    [] k = "bin"  -> <<"\"0\"", "\"0F\"", "\"1ABC\"", "\"3FF\"">>
    [] k = "bool" -> <<".T.", ".F.">>
    [] k = "log"  -> <<".T.", ".F.", ".U.">>
    [] k = "enum" -> <<".RED.", ".GREEN.", ".BLUE.">>
    [] k = "ref"  -> <<"#1">>
    [] k = "sel"  -> <<"#1", "LAB('q')", "CNT(4)", "RATIO(2.5)", "ILIST((1,2))", "LAB('it''s')">>
    \* values of the select d1 = SELECT(cnt, d2), d2 = SELECT(tag, d3), d3 = SELECT(wid, d4), d4 = SELECT(num, tgt): depth 1 to 4
    [] k = "dsel" -> <<"CNT(4)", "TAG('q')", "WID(2.5)", "NUM(7)", "#1", "TAG('it''s')", "WID(-1.5E-3)", "NUM(-9)">>
    [] k = "ldsel" -> <<"()", "(NUM(7))", "(CNT(4),TAG('q'),WID(2.5),NUM(7),#1)">>
    [] k = "li"   -> <<"()", "(1)", "(1,-2,3)", "(1000000000000000,-9223372036854775806,99999999999999999)">>
    [] k = "sr"   -> <<"()", "(1.5)", "(1.5,2.5E3)">>
    [] k = "bs"   -> <<"()", "('a')", "('a','b','it''s')">>
    [] k = "ar"   -> <<"(1,2,3)">>
    [] k = "le"   -> <<"()", "(.RED.)", "(.RED.,.BLUE.)">>
    [] k = "lr"   -> <<"()", "(#1)", "(#1,#1)">>
    [] k = "ls"   -> <<"()", "(LAB('q'))", "(#1,CNT(4),RATIO(2.5))">>
    [] k = "lb"   -> <<"()", "(.T.)", "(.T.,.F.)">>
    [] k = "ll"   -> <<"()", "((1))", "((1,2),(3))", "((),(1))">>
    [] k = "ao"   -> <<"('a','b','c')", "('a',$,'c')", "($,$,$)">>
    [] k = "lbin" -> <<"()", "(\"0\")", "(\"0\",\"1F\")">>
    [] k = "null" -> <<"$">>
    [] k = "star" -> <<"*">>
(* entity shapes: keyword (or parts of a complex instance) and the kind of each parameter; "?k" = OPTIONAL k *)
Shapes ==
  << [kw |-> <<"SIMPLE">>, ps |-> << <<"int", "real", "num", "str", "bin", "bool", "log", "enum">> >>],
     [kw |-> <<"OPTS">>, ps |-> << <<"?int", "?real", "?str", "?enum", "?ref", "?sel">> >>],
     [kw |-> <<"DEEPSEL">>, ps |-> << <<"dsel", "?dsel", "ldsel">> >>],
     [kw |-> <<"DEFTYPES">>, ps |-> << <<"str", "int", "real", "li">> >>],
     [kw |-> <<"AGGS">>, ps |-> << <<"li", "sr", "bs", "ar", "le", "lr", "ls", "lb">> >>],
     [kw |-> <<"NESTED">>, ps |-> << <<"ll">> >>],
     [kw |-> <<"AROPT">>, ps |-> << <<"ao">> >>],
     [kw |-> <<"BINAGG">>, ps |-> << <<"lbin">> >>],
     [kw |-> <<"DSUB">>, ps |-> << <<"int", "star">> >>],
     [kw |-> <<"RSUB">>, ps |-> << <<"int", "int">> >>],
     [kw |-> <<"MM">>, ps |-> << <<"int", "str", "real">> >>],
     [kw |-> <<"CBASE", "CPA", "CPB">>, ps |-> << <<"int">>, <<"int", "enum">>, <<"str">> >>],
     [kw |-> <<"CBASE", "CPB">>, ps |-> << <<"int">>, <<"str">> >>] >>
Opt(k) == k \in {"?int", "?real", "?str", "?enum", "?ref", "?sel", "?dsel"}
Base(k) == CASE k = "?int" -> "int" [] k = "?real" -> "real" [] k = "?str" -> "str" [] k = "?enum" -> "enum"
             [] k = "?ref" -> "ref" [] k = "?sel" -> "sel" [] k = "?dsel" -> "dsel" [] OTHER -> k
(* the n-th choice for a parameter of kind k at position j: pools are walked with different strides so that all  *)
(* forms of all kinds are met without taking the full product; an OPTIONAL parameter is `$` every third time      *)
Choice(k, n, j) == IF Opt(k) /\ (n + j) % 3 = 0 THEN "$"
                   ELSE LET p == Pool(Base(k)) IN p[((n * (j + 1) + j) % Len(p)) + 1]
Instance(sh, n) == [kw |-> sh.kw, vals |-> [q \in 1..Len(sh.ps) |-> [j \in 1..Len(sh.ps[q]) |-> Choice(sh.ps[q][j], n, j + 3 * q)]]]
Rounds(sh) == LET RECURSIVE MaxLen(_, _)
                  MaxLen(q, j) == IF q > Len(sh.ps) THEN 1
                                  ELSE IF j > Len(sh.ps[q]) THEN MaxLen(q + 1, 1)
                                  ELSE LET a == Len(Pool(Base(sh.ps[q][j]))) b == MaxLen(q, j + 1) IN IF a > b THEN a ELSE b
              IN MaxLen(1, 1)

(* Dev_UnsetAggregateElement (known finding): `$` as an element of an ARRAY OF OPTIONAL is reported as an invalid *)
(* value by the element readers and written back as an empty element                                            *)
Dev_UnsetAggregateElement(sh, n) ==
  \E q \in 1..Len(sh.ps) : \E j \in 1..Len(sh.ps[q]) :
      sh.ps[q][j] = "ao" /\ Choice("ao", n, j + 3 * q) \in {"('a',$,'c')", "($,$,$)"}

(* header section: FILE_DESCRIPTION(description, implementation_level), FILE_NAME(name, time_stamp, author,      *)
(* organization, preprocessor_version, originating_system, authorization), FILE_SCHEMA(schema_identifiers);      *)
(* string lists of length one to three, empty strings, doubled apostrophes, text that looks like Part 21 syntax, *)
(* control directives                                                                                           *)
HeaderPool ==
  << [desc |-> <<"'verif'">>, level |-> "'2;1'", name |-> "'f'", authors |-> <<"'a'">>, orgs |-> <<"'o'">>, pre |-> "'p'", sys |-> "'s'", auth |-> "'z'"],
     [desc |-> <<"'two'", "'lines'">>, level |-> "'2;1'", name |-> "'it''s.stp'", authors |-> <<"'a1'", "'a2'", "'a3'">>, orgs |-> <<"''">>,
      pre |-> "'pre (x) #1;'", sys |-> "''", auth |-> "''"],
     [desc |-> <<"''">>, level |-> "'1'", name |-> "'/* not a comment */'", authors |-> <<"''">>, orgs |-> <<"'o1'", "'o2'">>,
      pre |-> "'\\X\\E9'", sys |-> "'back\\\\slash'", auth |-> "'$'"],
     [desc |-> <<"'ENDSEC;'", "'DATA;'", "'HEADER;'">>, level |-> "'2;1'", name |-> "'END-ISO-10303-21;'", authors |-> <<"'a,b'", "'(c)'">>, orgs |-> <<"'o'">>,
      pre |-> "'p'", sys |-> "'s'", auth |-> "'*'"] >>
Header(n) == HeaderPool[(n % Len(HeaderPool)) + 1]

(* C01: reading reports no error; ids, order, keywords and every value are the same; the header is the same apart *)
(* from the time stamp; a second round trip is byte-identical                                                    *)
RoundTripOK(sev, sameIds, sameKeywords, valuesSame, sameHeader, secondIdentical) ==
  sev >= 2 /\ sameIds /\ sameKeywords /\ (\A i \in 1..Len(valuesSame) : valuesSame[i]) /\ sameHeader /\ secondIdentical
=============================================================================

---- MODULE PyAggr_MC ----
(* design check: every container declaration within the bounds, every operation sequence the oracle permits *)
EXTENDS PyAggr
CONSTANTS MaxLo, MaxSpan
Cfgs == {r \in [kind : Kinds, lo : 0..MaxLo, hi : 0..(MaxLo + MaxSpan), unb : BOOLEAN, uniq : BOOLEAN, opt : BOOLEAN] :
           LegalCfg(r) /\ (r.unb => r.hi = 0) /\ (~r.unb => r.hi <= r.lo + MaxSpan)}
MCNext == \/ k.kind = "none" /\ \E r \in Cfgs : Construct(r)
          \/ k.kind # "none" /\ NextOp
MCSpec == Init /\ [][MCNext]_vars
(* unbounded BAG/SET grow without limit: bound the exploration *)
MCBound == k.kind \in {"BAG", "SET"} => Len(c) <= MaxLo + MaxSpan + 1
====

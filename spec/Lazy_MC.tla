---- MODULE Lazy_MC ----
(* sanity of the Lazy operators on all small inverse-family populations: the inverse relation is the transpose of *)
(* the inverted attribute, restricted to the declared referrer entities                                           *)
EXTENDS Lazy, TLC
I(i, t, x, y) == [id |-> i, ty |-> t, a |-> x, b |-> y]
Opt(S) == {<<>>} \cup {<<x>> : x \in S}
Pops == { <<I(1, t1, <<>>, <<>>), I(2, "inode", <<>>, <<>>), I(3, h1, x1, y1), I(4, "ipair", x2, y2)>> :
            t1 \in {"inode", "isubnode", "itwo"}, h1 \in {"iholder", "isub", "ipair"},
            x1 \in {<<>>, <<1>>, <<2>>, <<1, 2>>, <<1, 1>>}, y1 \in Opt({1}), x2 \in Opt({1}), y2 \in Opt({1}) }
VARIABLE P
Init == P \in Pops
Next == UNCHANGED P
InverseIsTranspose == \A i \in 1..Len(P) : \A d \in InvDecl(P[i].ty) : \A y \in IdsOf(P) :
     (y \in Referrers(P, P[i].id, d)) <=> (Inst(P, y).ty \in d.over /\ P[i].id \in Via(Inst(P, y), d.via))
NoForeignReferrer == \A i \in 1..Len(P) : \A d \in InvDecl(P[i].ty) : Referrers(P, P[i].id, d) \subseteq IdsOf(P) \ {P[i].id}
====

------------------------------- MODULE P21Lex -------------------------------
(***************************************************************************)
(* Token automata of ISO 10303-21:2002 (clause 6, doc/iso-10303-21--2002    *)
(* .bnf) for the simple attribute kinds, as far as property C09 quantifies: *)
(* INTEGER, REAL, STRING (quote doubling, \\, \S\c, \X\hh), BINARY,         *)
(* ENUMERATION / BOOLEAN / LOGICAL (".NAME."), entity reference ("#n").     *)
(* A token is a sequence of one-character strings.                          *)
(***************************************************************************)
EXTENDS Integers, Sequences, FiniteSets

Digits == {"0", "1", "2", "3", "4", "5", "6", "7", "8", "9"}
Signs == {"+", "-"}
Upper == {"A", "B", "C", "D", "E", "F", "G", "H", "I", "J", "K", "L", "M", "N", "O", "P", "Q", "R", "S", "T", "U", "V", "W", "X", "Y", "Z"}
Lower == {"a", "b", "c", "d", "e", "f", "g", "h", "i", "j", "k", "l", "m", "n", "o", "p", "q", "r", "s", "t", "u", "v", "w", "x", "y", "z"}
Hex == Digits \cup {"A", "B", "C", "D", "E", "F"}

Delta(kind, st, ch) ==
  CASE kind = "int" ->
         (CASE st = "start" -> IF ch \in Signs THEN "sign" ELSE IF ch \in Digits THEN "int" ELSE "dead"
            [] st \in {"sign", "int"} -> IF ch \in Digits THEN "int" ELSE "dead"
            [] OTHER -> "dead")
    [] kind = "real" ->
         (CASE st = "start" -> IF ch \in Signs THEN "sign" ELSE IF ch \in Digits THEN "int" ELSE "dead"
            [] st = "sign"  -> IF ch \in Digits THEN "int" ELSE "dead"
            [] st = "int"   -> IF ch \in Digits THEN "int" ELSE IF ch = "." THEN "dot" ELSE "dead"
            [] st \in {"dot", "frac"} -> IF ch \in Digits THEN "frac" ELSE IF ch = "E" THEN "E" ELSE "dead"
            [] st = "E"     -> IF ch \in Signs THEN "esign" ELSE IF ch \in Digits THEN "exp" ELSE "dead"
            [] st \in {"esign", "exp"} -> IF ch \in Digits THEN "exp" ELSE "dead"
            [] OTHER -> "dead")
    [] kind = "str" ->
         (CASE st = "start" -> IF ch = "'" THEN "in" ELSE "dead"
            [] st = "in"    -> IF ch = "'" THEN "q" ELSE IF ch = "\\" THEN "bs" ELSE "in"
            [] st = "q"     -> IF ch = "'" THEN "in" ELSE "dead"           \* '' inside, a lone ' ended the token
            [] st = "bs"    -> IF ch = "\\" THEN "in" ELSE IF ch = "S" THEN "bsS" ELSE IF ch = "X" THEN "bsX" ELSE "dead"
            [] st = "bsS"   -> IF ch = "\\" THEN "bsS2" ELSE "dead"
            [] st = "bsS2"  -> IF ch \notin {"'", "\\"} THEN "in" ELSE "dead"
            [] st = "bsX"   -> IF ch = "\\" THEN "bsX1" ELSE "dead"
            [] st = "bsX1"  -> IF ch \in Hex THEN "bsX2" ELSE "dead"
            [] st = "bsX2"  -> IF ch \in Hex THEN "in" ELSE "dead"
            [] OTHER -> "dead")
    [] kind = "bin" ->
         (CASE st = "start" -> IF ch = "\"" THEN "open" ELSE "dead"
            [] st = "open"  -> IF ch \in {"0", "1", "2", "3"} THEN "hex" ELSE "dead"
            [] st = "hex"   -> IF ch \in Hex THEN "hex" ELSE IF ch = "\"" THEN "end" ELSE "dead"
            [] OTHER -> "dead")
    [] kind \in {"enum", "bool", "log"} ->
         (CASE st = "start" -> IF ch = "." THEN "dot" ELSE "dead"
            [] st = "dot"   -> IF ch \in Upper THEN "name" ELSE "dead"
            [] st = "name"  -> IF ch \in Upper \cup Digits \cup {"_"} THEN "name" ELSE IF ch = "." THEN "end" ELSE "dead"
            [] OTHER -> "dead")
    [] kind = "ref" ->
         (CASE st = "start" -> IF ch = "#" THEN "hash" ELSE "dead"
            [] st \in {"hash", "num"} -> IF ch \in Digits THEN "num" ELSE "dead"
            [] OTHER -> "dead")
Accepting(kind, st) ==
  CASE kind = "int" -> st = "int"
    [] kind = "real" -> st \in {"dot", "frac", "exp"}
    [] kind = "str" -> st = "q"
    [] kind = "bin" -> st = "end"
    [] kind \in {"enum", "bool", "log"} -> st = "end"
    [] kind = "ref" -> st = "num"

RECURSIVE RunFrom(_, _, _, _)
RunFrom(kind, st, w, i) == IF i > Len(w) THEN st ELSE RunFrom(kind, Delta(kind, st, w[i]), w, i + 1)
InGrammar(kind, w) == Accepting(kind, RunFrom(kind, "start", w, 1))
(* the reader's deliberate leniency named by the statement: letter case *)
ToUpper == [c \in Lower |-> CASE c = "a" -> "A" [] c = "b" -> "B" [] c = "c" -> "C" [] c = "d" -> "D" [] c = "e" -> "E" [] c = "f" -> "F"
                               [] c = "g" -> "G" [] c = "h" -> "H" [] c = "i" -> "I" [] c = "j" -> "J" [] c = "k" -> "K" [] c = "l" -> "L"
                               [] c = "m" -> "M" [] c = "n" -> "N" [] c = "o" -> "O" [] c = "p" -> "P" [] c = "q" -> "Q" [] c = "r" -> "R"
                               [] c = "s" -> "S" [] c = "t" -> "T" [] c = "u" -> "U" [] c = "v" -> "V" [] c = "w" -> "W" [] c = "x" -> "X"
                               [] c = "y" -> "Y" [] c = "z" -> "Z"]
Norm(kind, w) == IF kind = "str" THEN w
                 ELSE IF kind = "ref" /\ Len(w) >= 2 /\ w[1] = "#" /\ w[2] = "+" THEN <<"#">> \o SubSeq(w, 3, Len(w))   \* "#+1" spells #1
                 ELSE [i \in 1..Len(w) |-> IF w[i] \in Lower THEN ToUpper[w[i]] ELSE w[i]]
(* the token ends inside an open quote: whatever follows, including the delimiter, belongs to the literal *)
OpenQuote(kind, w) == LET st == RunFrom(kind, "start", w, 1) IN
                      (kind = "str" /\ st \in {"in", "bs", "bsS", "bsS2", "bsX", "bsX1", "bsX2"}) \/ (kind = "bin" /\ st \in {"open", "hex"})

(* the writer's canonical form is narrower than the grammar: no redundant "+", upper-case, REAL with a point *)
WriterForm(kind, w) == InGrammar(kind, w) /\ (kind \in {"int", "real"} => w[1] # "+")

(* C09 verdict on one read: iso = token in grammar, repr = value representable, normiso = in grammar after Norm *)
(* sev = attribute severity (>= 2: accepted), null = attribute left unset, valok = value equals the denoted one  *)
Verdict(iso, repr, normiso, sev, null, valok) ==
  IF iso /\ repr THEN (IF sev < 2 THEN "rejected-valid-token" ELSE IF null THEN "valid-token-left-unset" ELSE IF ~valok THEN "wrong-value" ELSE "ok")
  ELSE IF sev < 2 THEN "ok"                                      \* an error was raised: nothing more is demanded
  ELSE IF null THEN "silently-unset"
  ELSE IF normiso /\ repr /\ valok THEN "ok"                     \* deliberate leniency: the value it evidently spells
  ELSE "silently-different-value"
=============================================================================

---- MODULE Population_GenMissing ----
(* C15 on generated schemas: every conforming population of round n; every parameter of every instance is a place   *)
(* where the value may be replaced by `$`.  For each place the attribute's kind (in the vocabulary of P21Read) and  *)
(* its OPTIONAL flag are emitted; the verdict is P21Read!MissingOutcome, evaluated on the recorded read by          *)
(* P21Read_Trace.  (Inherited and own attributes, attributes whose domain reaches a simple type through defined    *)
(* types, aggregates of every form, selects and entity references all occur in the family.)                       *)
EXTENDS Population, Json
CONSTANTS Deep, Rounds
VARIABLES c, n
Covered(ch) == ~ch.aux /\ ch.inh # "noents" /\ ~(ch.ts.k = "chain" /\ ch.ts.of = "select") /\ "nm" \notin DOMAIN ch
ReadKind(kd) == CASE kd = "INTEGER" -> "int" [] kd = "REAL" -> "real" [] kd = "NUMBER" -> "num" [] kd = "STRING" -> "str"
                  [] kd = "BINARY" -> "bin" [] kd = "BOOLEAN" -> "bool" [] kd = "LOGICAL" -> "log" [] kd = "enum" -> "enum"
                  [] kd = "entity" -> "ref" [] kd = "select" -> "sel" [] kd = "aggr" -> "li"
PlacesOf(s, pop) == UNION {{[i |-> i, j |-> j, kind |-> ReadKind(KindOfRef(s, AttrAt(s, pop[i].ent, j).ty)),
                              opt |-> EffOpt(s, pop[i].ent, AttrOrder(s, pop[i].ent)[j]), inherited |-> AttrOrder(s, pop[i].ent)[j].owner # pop[i].ent] :
                             j \in {k \in 1..Len(pop[i].params) : pop[i].params[k].k # "star"}} : i \in 1..Len(pop)}
Init == c \in {ch \in Choices(Deep) : Covered(ch) /\ Conforming(Valid(ch))} /\ n \in 0..Rounds
Next == UNCHANGED <<c, n>>
Emit == PrintT("@@CASE " \o ToJson([choice |-> c, n |-> n, schema |-> Valid(c), pop |-> Pop(Valid(c), n),
                                    places |-> PlacesOf(Valid(c), Pop(Valid(c), n))]))
====

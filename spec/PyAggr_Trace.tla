---- MODULE PyAggr_Trace ----
(* Monitor-style trace validation: the recorded outcome of every operation drives the module's state, and the  *)
(* three-valued oracle plus the query clauses are evaluated at every event.  A disagreement does not stop the  *)
(* run: it is reported (one @@CASE line) together with whether a *named deviation* of the runtime explains it. *)
EXTENDS PyAggr, Json, IOUtils
VARIABLE l
TraceLog == ndJsonDeserialize(IOEnv.TRACE)
Ev == TraceLog[l]
IsEvent(e) == l <= Len(TraceLog) /\ Ev.e = e /\ l' = l + 1

(* the queries the statement lists, judged on the state after the operation (argument: that state's operators) *)
QueriesOK(size, lob, hib, loi, hii, un) ==
   /\ size = Size' /\ lob = k'.lo /\ hib = (IF k'.unb THEN -1 ELSE k'.hi)
   /\ loi = LoIndex' /\ hii = HiIndex'
   /\ (un = "T" => ValueUnique') /\ (un = "F" => ~ValueUnique')
   /\ (un = "U" => (k'.kind = "LIST" \/ (k'.kind = "ARRAY" /\ ~AllSet')))
(* ... and the built-in functions SIZEOF, HIBOUND, LOBOUND, HIINDEX, LOINDEX, VALUE_UNIQUE give the same answers *)
Q == QueriesOK(Ev.size, Ev.lob, Ev.hib, Ev.loi, Ev.hii, Ev.un) /\ Ev.builtins

Report(clause, m, dev) ==
   PrintT("@@CASE " \o ToJson([line |-> l, clause |-> clause, must |-> m, acc |-> Ev.acc, dev |-> dev, cfg |-> k, ev |-> Ev]))

(* Dev_CapacityIsSpan: the runtime takes hi - lo + 1 (the ARRAY formula) as the capacity of LIST, BAG and SET *)
TNew == /\ IsEvent("new")
        /\ Construct([kind |-> Ev.kind, lo |-> Ev.lo, hi |-> Ev.hi, unb |-> Ev.unb, uniq |-> Ev.uniq, opt |-> Ev.opt])
TSet == /\ IsEvent("set") /\ SetItem(Ev.i, Ev.v, Ev.acc)
        /\ LET m == MustSet(Ev.i, Ev.v) IN
           (~Consistent(m, Ev.acc)) =>
              Report("set", m, IF Consistent(MustSetC(Ev.i, Ev.v, TRUE), Ev.acc) THEN "Dev_CapacityIsSpan" ELSE "")
        /\ (~Q => Report("queries", "", ""))
TGet == /\ IsEvent("get") /\ GetItem(Ev.i, Ev.acc)
        /\ LET m == MustGet(Ev.i) IN (~Consistent(m, Ev.acc)) => Report("get", m, "")
        /\ ((Ev.acc /\ Ev.val # c[Ev.i]) => Report("get-value", "", ""))
        /\ (~Q => Report("queries", "", ""))
TAdd == /\ IsEvent("add") /\ Add(Ev.v, Ev.acc)
        /\ LET m == MustAdd(Ev.v) IN
           (~Consistent(m, Ev.acc)) =>
              Report("add", m, IF Consistent(MustAddC(Ev.v, TRUE), Ev.acc) THEN "Dev_CapacityIsSpan" ELSE "")
        /\ (~Q => Report("queries", "", ""))
(* a declaration is accepted exactly when it is legal (bounds of the right kind and order); the state is untouched *)
TDecl == /\ IsEvent("decl") /\ UNCHANGED <<k, c>>
         /\ LET r == [kind |-> Ev.kind, lo |-> Ev.lo, hi |-> Ev.hi, unb |-> Ev.unb, uniq |-> Ev.uniq, opt |-> Ev.opt] IN
            (Ev.acc # LegalCfg(r)) =>
               PrintT("@@CASE " \o ToJson([line |-> l, clause |-> "declaration", must |-> IF LegalCfg(r) THEN "accept" ELSE "reject",
                                           acc |-> Ev.acc, dev |-> "", cfg |-> r, ev |-> Ev]))
TInit == Init /\ l = 1
TNext == TNew \/ TSet \/ TGet \/ TAdd \/ TDecl
TraceAccepted == TLCGet("stats").diameter - 1 = Len(TraceLog)
====

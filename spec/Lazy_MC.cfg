INIT Init
NEXT Next
INVARIANT InverseIsTranspose NoForeignReferrer

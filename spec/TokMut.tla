---- MODULE TokMut ----
(* Single-edit mutants of a text given as a sequence of pieces: the tokens of an EXPRESS schema (C04, C06, C20) or *)
(* the characters of the DATA section of a Part 21 file (C05).  The pieces come from the file named by the         *)
(* environment variable TOKS, one record per piece: k = "id" | "kw" | "lit" | "op"; u = the identifier stands at a *)
(* using position - it refers to a declaration and is not itself the declared name; h = a number naming the        *)
(* piece's spelling.  INS names a file with one record per insertable piece (punctuation, comment brackets, ...).  *)
(* A mutant is an edit [at, drop, put]: drop that many pieces at position at and put the listed ones there; a      *)
(* positive number is the index of a piece of the original, 0 / -1 / -2 stand for an undeclared identifier, a      *)
(* misplaced keyword and a literal, -(10 + p) for the p-th insertable piece.                                      *)
(* Every mutant is run through the sanitizer builds; C04 additionally expects the verdict Expect: an identifier at *)
(* a using position that names nothing declared is an unresolvable reference, whatever the position.              *)
EXTENDS Naturals, Integers, Sequences, TLC, Json, IOUtils
CONSTANT Stride        \* 1: every position; k: every k-th position (the long shipped schemas)
Toks == ndJsonDeserialize(IOEnv.TOKS)
Ins == ndJsonDeserialize(IOEnv.INS)
N == Len(Toks)
Ops == {"none", "del", "dup", "swap", "undecl", "tokw", "tolit", "ins"}
Applicable(op, i, p) ==
  /\ (op # "ins") => p = 0 /\ i <= N
  /\ CASE op = "none" -> i = 1
       [] op = "swap" -> i < N /\ Toks[i].h # Toks[i + 1].h
       [] op \in {"undecl", "tokw", "tolit"} -> Toks[i].k = "id"
       [] op = "ins" -> p \in 1..Len(Ins)
       [] OTHER -> TRUE
Edit(op, i, p) ==
  CASE op = "none" -> [at |-> 1, drop |-> 0, put |-> <<>>]
    [] op = "del" -> [at |-> i, drop |-> 1, put |-> <<>>]
    [] op = "dup" -> [at |-> i, drop |-> 0, put |-> <<i>>]
    [] op = "swap" -> [at |-> i, drop |-> 2, put |-> <<i + 1, i>>]
    [] op = "undecl" -> [at |-> i, drop |-> 1, put |-> <<0>>]
    [] op = "tokw" -> [at |-> i, drop |-> 1, put |-> <<-1>>]
    [] op = "tolit" -> [at |-> i, drop |-> 1, put |-> <<-2>>]
    [] op = "ins" -> [at |-> i, drop |-> 0, put |-> <<0 - (10 + p)>>]
Ix(a, b) == [j \in 1..(IF b >= a THEN b - a + 1 ELSE 0) |-> a + j - 1]
Splice(e) == Ix(1, e.at - 1) \o e.put \o Ix(e.at + e.drop, N)
Apply(op, i, p) == Splice(Edit(op, i, p))
Expect(op, i) == IF op = "none" THEN "valid" ELSE IF op = "undecl" /\ Toks[i].u THEN "fault" ELSE "any"
(* every mutant differs from the original in at most two adjacent positions, and "none" is the original *)
Sane(op, i, p) == LET a == Apply(op, i, p) IN
                  /\ Len(a) \in {N - 1, N, N + 1}
                  /\ \A j \in 1..Len(a) : j < i => a[j] = j
                  /\ op = "none" => a = Ix(1, N)
                  /\ op = "del" => a = Ix(1, i - 1) \o Ix(i + 1, N)
                  /\ op = "ins" => a[i] < 0 /\ \A j \in (i + 1)..(N + 1) : a[j] = j - 1
VARIABLES op, i, p
Init == op \in Ops /\ i \in {j \in 1..(N + 1) : j = 1 \/ j % Stride = 0} /\ p \in 0..Len(Ins) /\ Applicable(op, i, p)
Next == UNCHANGED <<op, i, p>>
Emit == PrintT("@@CASE " \o ToJson([op |-> op, i |-> i, p |-> p, expect |-> IF i <= N THEN Expect(op, i) ELSE "any", edit |-> Edit(op, i, p)]))
\* (quadratic in N: checked on texts of up to 400 pieces; the operators do not depend on N)
SaneInv == N <= 400 => Sane(op, i, p)
====

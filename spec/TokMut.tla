---- MODULE TokMut ----
(* Single-token mutants of a schema text.  The text is given as its token sequence (file named by the environment  *)
(* variable TOKS, one record per token: k = "id" | "kw" | "lit" | "op"; u = the identifier stands at a using        *)
(* position - it refers to a declaration and is not itself the declared name; h = a number naming the token's      *)
(* spelling).  A mutant is described by the sequence of its tokens: a positive number is the index of a token of   *)
(* the original text, 0 / -1 / -2 stand for an undeclared identifier, a misplaced keyword and a literal.           *)
(* C06 runs every mutant through the sanitizer-built tools; C04 additionally expects the verdict Expect: an        *)
(* identifier at a using position that names nothing declared is an unresolvable reference, whatever the position. *)
EXTENDS Naturals, Integers, Sequences, TLC, Json, IOUtils
Toks == ndJsonDeserialize(IOEnv.TOKS)
N == Len(Toks)
Ops == {"none", "del", "dup", "swap", "undecl", "tokw", "tolit"}
Applicable(op, i) ==
  CASE op = "none" -> i = 1
    [] op = "swap" -> i < N /\ Toks[i].h # Toks[i + 1].h
    [] op \in {"undecl", "tokw", "tolit"} -> Toks[i].k = "id"
    [] OTHER -> TRUE
Ix(a, b) == [j \in 1..(IF b >= a THEN b - a + 1 ELSE 0) |-> a + j - 1]
Apply(op, i) ==
  CASE op = "none" -> Ix(1, N)
    [] op = "del" -> Ix(1, i - 1) \o Ix(i + 1, N)
    [] op = "dup" -> Ix(1, i) \o Ix(i, N)
    [] op = "swap" -> Ix(1, i - 1) \o <<i + 1, i>> \o Ix(i + 2, N)
    [] op = "undecl" -> Ix(1, i - 1) \o <<0>> \o Ix(i + 1, N)
    [] op = "tokw" -> Ix(1, i - 1) \o <<-1>> \o Ix(i + 1, N)
    [] op = "tolit" -> Ix(1, i - 1) \o <<-2>> \o Ix(i + 1, N)
Expect(op, i) == IF op = "none" THEN "valid" ELSE IF op = "undecl" /\ Toks[i].u THEN "fault" ELSE "any"
(* every mutant differs from the original in at most two adjacent positions, and "none" is the original *)
Sane(op, i) == /\ Len(Apply(op, i)) \in {N - 1, N, N + 1}
               /\ \A j \in 1..Len(Apply(op, i)) : j < i => Apply(op, i)[j] = j
               /\ op = "none" => Apply(op, i) = Ix(1, N)
VARIABLES op, i
Init == op \in Ops /\ i \in 1..N /\ Applicable(op, i)
Next == UNCHANGED <<op, i>>
Emit == PrintT("@@CASE " \o ToJson([op |-> op, i |-> i, expect |-> Expect(op, i), toks |-> Apply(op, i)]))
SaneInv == Sane(op, i)
====

CONSTANTS N = 4 Cyclic = FALSE
  Ids <- MIds
  Graphs <- MGraphs
SPECIFICATION Spec
INVARIANT NoReentry QuietIsComplete LoadsClosure InverseExact
PROPERTY Terminates
CHECK_DEADLOCK FALSE

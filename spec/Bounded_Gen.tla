---- MODULE Bounded_Gen ----
EXTENDS Bounded, TLC, Json
CONSTANTS Deep, Side
VARIABLE c
GInit == c \in {f \in Family(Deep) : f.side = Side} \cup (IF Side = "p21" THEN {[table |-> "degenerate:" \o d, side |-> "p21", n |-> 0] : d \in Degenerate}
                         \cup {[table |-> "extreme:" \o x.kind \o ":" \o x.text, side |-> "p21", n |-> 0] : x \in ExtremeNumerals}
                         \cup {[table |-> "parts", side |-> "p21", n |-> Len(q), parts |-> q] : q \in PartLists(IF Deep THEN 4 ELSE 2)}
                         ELSE {[table |-> "degenerate:" \o d, side |-> "express", n |-> 0] : d \in DegenerateExpress}) /\ Init
GNext == UNCHANGED <<c, len>>
Emit == PrintT("@@CASE " \o ToJson(c))
====

---- MODULE Bounded_Gen ----
EXTENDS Bounded, TLC, Json
CONSTANTS Deep, Side
VARIABLE c
GInit == c \in {f \in Family(Deep) : f.side = Side} /\ Init
GNext == UNCHANGED <<c, len>>
Emit == PrintT("@@CASE " \o ToJson(c))
====

---- MODULE PrintOpts ----
(* The option space of the pretty printer (C07's quantifier "all option combinations"): the line length -l, tail    *)
(* comments -t, CONSTANT blocks in the compact form -c.  The printer lays every declaration out against the line   *)
(* length (a third of the line for attribute names, wrapping of expressions and literals), so each length from    *)
(* the shortest the tool accepts up to well past the indentation thresholds is a case of its own; beyond that   *)
(* lengths are sampled up to "never wrap".                                                                        *)
EXTENDS Naturals, FiniteSets, Sequences, TLC, Json
CONSTANT Deep
(* (the tool accepts lengths of two to five digits)                                                               *)
LineLens == (10..48) \cup {60, 75, 99, 100, 130, 131, 200, 1000, 99999}
Flags == SUBSET {"-t", "-c"}
(* every length with the plain flags; with the other flag sets every length (Deep) or every fifth *)
OptionSets == {[len |-> 0, flags |-> f] : f \in Flags}
              \cup {[len |-> l, flags |-> {}] : l \in LineLens}
              \cup {[len |-> l, flags |-> f] : l \in {x \in LineLens : Deep \/ x % 5 = 0}, f \in Flags \ {{}}}
VARIABLE o
Init == o \in OptionSets
Next == UNCHANGED o
Emit == PrintT("@@CASE " \o ToJson([len |-> o.len, t |-> "-t" \in o.flags, c |-> "-c" \in o.flags]))
====

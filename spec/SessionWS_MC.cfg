SPECIFICATION MSpec
PROPERTY WSRoundTrip

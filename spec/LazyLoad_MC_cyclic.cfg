CONSTANTS N = 3 Cyclic = TRUE
  Ids <- MIds
  Graphs <- MGraphs
SPECIFICATION Spec
CONSTRAINT Depth
INVARIANT NoReentry
CHECK_DEADLOCK FALSE

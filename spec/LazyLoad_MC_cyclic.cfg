CONSTANTS N = 3 Cyclic = TRUE
  Ids <- MIds
  Graphs <- MGraphs
SPECIFICATION Spec
INVARIANT NoReentry QuietIsComplete LoadsClosure InverseExact
PROPERTY Terminates
CHECK_DEADLOCK FALSE

---- MODULE Bounded_Trace ----
EXTENDS Bounded, TLC, Json, IOUtils
VARIABLE l
TraceLog == ndJsonDeserialize(IOEnv.TRACE)
Ev == TraceLog[l]
TRun == /\ l <= Len(TraceLog) /\ Ev.e = "Run" /\ l' = l + 1 /\ UNCHANGED len
        /\ (~SafeRun(Ev.rc, Ev.signalled, Ev.sanitizer, Ev.timedout)) => PrintT("@@CASE " \o ToJson([line |-> l, ev |-> Ev]))
TInit == Init /\ l = 1
TNext == TRun
TraceAccepted == TLCGet("stats").diameter - 1 = Len(TraceLog)
====

---- MODULE SessionImpl_MC ----
EXTENDS SessionImpl
I(a, t, r) == [id |-> a, ty |-> t, v |-> a, refs |-> r, st |-> "C"]
MFiles == { <<I(1, "leaf", <<>>)>>,
            <<I(1, "node", <<2>>), I(2, "node", <<1>>)>>,
            <<I(2, "node", <<2>>)>>,
            <<I(3, "leaf", <<>>), I(1, "h_items", <<3, 3>>)>>,
            <<I(2, "cx", <<1, 1>>), I(1, "leaf", <<>>)>> }
MOffsets == 0..6
Bound == maxId <= 9
====

-------------------------------- MODULE Expr --------------------------------
(***************************************************************************)
(* EXPRESS expressions as the pretty printer must preserve them (property   *)
(* C07): abstract syntax, the precedence table of ISO 10303-11 clause 12    *)
(* (operators of one row associate to the left), and the source rendering   *)
(* with exactly the parentheses the structure needs.                        *)
(*                                                                         *)
(* e ::= [k |-> "int"|"real"|"str"|"id", v]  |  [k |-> "un", op, a]         *)
(*     | [k |-> "bin", op, l, r] | [k |-> "call", f, args] | [k |-> "agg",  *)
(*       items] | [k |-> "rep", a, n] | [k |-> "interval", lo, lop, x, hop, *)
(*       hi] | [k |-> "query", v, src, cond] | [k |-> "dot", a, name]       *)
(*     | [k |-> "group", a, name] | [k |-> "index", a, i]                   *)
(* (qualifiers bind tightest: row 1 of the table)                           *)
(***************************************************************************)
EXTENDS Integers, Sequences, FiniteSets

(* precedence rows, 1 binds tightest *)
Prec(op) == CASE op = "**" -> 3
              [] op \in {"*", "/", "DIV", "MOD", "AND", "||"} -> 4
              [] op \in {"+", "-", "OR", "XOR"} -> 5
              [] op \in {"=", "<>", "<=", ">=", "<", ">", ":=:", ":<>:", "IN", "LIKE"} -> 6
UnaryPrec == 2
PrecTable == [op \in {"**", "*", "/", "DIV", "MOD", "AND", "||", "+", "-", "OR", "XOR", "=", "<>", "<=", ">=", "<", ">", ":=:", ":<>:", "IN", "LIKE"} |-> Prec(op)]

Lit(k, v) == [k |-> k, v |-> v]
Un(op, a) == [k |-> "un", op |-> op, a |-> a]
Bin(op, l, r) == [k |-> "bin", op |-> op, l |-> l, r |-> r]
Call(f, args) == [k |-> "call", f |-> f, args |-> args]
Agg(items) == [k |-> "agg", items |-> items]
Rep(a, n) == [k |-> "rep", a |-> a, n |-> n]
Interval(lo, lop, x, hop, hi) == [k |-> "interval", lo |-> lo, lop |-> lop, x |-> x, hop |-> hop, hi |-> hi]
Query(v, src, cond) == [k |-> "query", v |-> v, src |-> src, cond |-> cond]
Dot(a, name) == [k |-> "dot", a |-> a, name |-> name]
Group(a, name) == [k |-> "group", a |-> a, name |-> name]
Index(a, i) == [k |-> "index", a |-> a, i |-> i]

(* binding strength of the root of an expression (0 = atom) *)
Level(e) == IF e.k = "bin" THEN Prec(e.op) ELSE IF e.k = "un" THEN UnaryPrec ELSE 0

RECURSIVE Render(_)
Join(seq, sep) == LET RECURSIVE J(_)
                      J(i) == IF i > Len(seq) THEN "" ELSE IF i = Len(seq) THEN seq[i] ELSE seq[i] \o sep \o J(i + 1)
                  IN J(1)
Paren(s) == "(" \o s \o ")"
Render(e) ==
  CASE e.k \in {"int", "real", "id"} -> e.v
    [] e.k = "str" -> "'" \o e.v \o "'"
    [] e.k = "un" -> e.op \o " " \o (IF Level(e.a) > UnaryPrec THEN Paren(Render(e.a)) ELSE Render(e.a))
    [] e.k = "bin" -> (IF Level(e.l) > Prec(e.op) \/ (e.op = "**" /\ Level(e.l) = Prec("**")) THEN Paren(Render(e.l)) ELSE Render(e.l))
                      \o " " \o e.op \o " " \o
                      (IF Level(e.r) >= Prec(e.op) THEN Paren(Render(e.r)) ELSE Render(e.r))
                      \* left associative; a chain of ** is always written with explicit parentheses (implementations
                      \* disagree on its associativity, so an unparenthesised chain would be an ambiguous source)
    [] e.k = "call" -> e.f \o "(" \o Join([i \in 1..Len(e.args) |-> Render(e.args[i])], ", ") \o ")"
    [] e.k = "agg" -> "[" \o Join([i \in 1..Len(e.items) |-> Render(e.items[i])], ", ") \o "]"
    [] e.k = "rep" -> Render(e.a) \o " : " \o Render(e.n)
    [] e.k = "query" -> "QUERY(" \o e.v \o " <* " \o Render(e.src) \o " | " \o Render(e.cond) \o ")"
    \* a qualifier applies to a primary: an operator expression that is qualified needs parentheses
    [] e.k = "dot" -> (IF Level(e.a) > 0 THEN Paren(Render(e.a)) ELSE Render(e.a)) \o "." \o e.name
    [] e.k = "group" -> (IF Level(e.a) > 0 THEN Paren(Render(e.a)) ELSE Render(e.a)) \o "\\" \o e.name
    [] e.k = "index" -> (IF Level(e.a) > 0 THEN Paren(Render(e.a)) ELSE Render(e.a)) \o "[" \o Render(e.i) \o "]"
    [] e.k = "interval" -> "{" \o Render(e.lo) \o " " \o e.lop \o " " \o Render(e.x) \o " " \o e.hop \o " " \o Render(e.hi) \o "}"

(* Dev_SplitLiteralReparenthesised (known finding): the printer splits a string literal that does not fit on the  *)
(* line into 'a' + 'b' and writes the pieces where the literal stood, without parentheses.  Read again, the      *)
(* pieces are a concatenation, and an operator expression that is an operand is printed in parentheses: the      *)
(* second printing of  x IN ['a' + 'b']  or  'a' + 'b' IN y  differs from the first by those parentheses (and by *)
(* the place of the split).  As a predicate on the two printings p1, p2 seen as trees with literals re-joined:   *)
Dev_SplitLiteralReparenthesised(p1tree, p2tree, p1toks, p2toks) == p1tree = p2tree /\ p1toks # p2toks
=============================================================================

#!/bin/sh
# usage: bin/seedtest.sh <patch.diff> <PROP> [tier]   - apply a seeded change to /repo, run the check, undo it.
set -u
patch=$1; prop=$2; tier=${3:-quick}
cd /repo || exit 2
git -C /repo apply "$patch" || { echo "patch does not apply"; exit 2; }
/verif/bin/verif check "$prop" --tier "$tier" > /verif/.work/seedtest-$prop.log 2>&1
rc=$?
git -C /repo checkout -- .
/verif/bin/verif build plain >/dev/null 2>&1
echo "check exit=$rc"
grep -c '^VIOLATION' /verif/.work/seedtest-$prop.log
grep '^VIOLATION\|^KNOWN' /verif/.work/seedtest-$prop.log | cut -c1-260 | head -4
exit 0

#!/bin/sh
# The pinned suite on a completely fresh configure + build of /repo's HEAD in a scratch directory (all schemas are
# generated again by the freshly built exp2cxx).  bin/baseline.sh builds in /repo/_build, where the generated schema
# sources are only regenerated at configure time: a change to a generator is only seen here.  Takes about 25 minutes.
set -e
S=/tmp/freshsrc; B=/tmp/fresh
git -C /repo worktree remove --force $S 2>/dev/null || true
rm -rf $B
git -C /repo worktree add --detach $S HEAD >/dev/null
rm -rf $S/_build
cmake -G Ninja -S $S -B $B -DSC_ENABLE_TESTING=ON -DCMAKE_BUILD_TYPE=RelWithDebInfo -DCMAKE_CXX_FLAGS=-Wno-error -DCMAKE_C_FLAGS=-Wno-error > /verif/.work/fresh-cfg.log 2>&1
ninja -C $B -k 0 > /verif/.work/fresh-build.log 2>&1 || { echo "FRESH BUILD FAILED (see /verif/.work/fresh-build.log)"; tail -5 /verif/.work/fresh-build.log; exit 2; }
(cd $B && ctest -j8 --timeout 900 -E 'read_write_cpp_sdai_ifc2x3_Bien-Zenker' 2>&1 | tail -12)
git -C /repo worktree remove --force $S
rm -rf $B

#!/usr/bin/env python3
"""Rewrite the table of seeded changes in DESIGN.md (between the SEEDTABLE markers) from seeded/*/meta.json."""
import glob, json, os, re
root = os.path.dirname(os.path.dirname(os.path.abspath(__file__)))
rows = ["| seed | property | needs, to show itself | detected by |", "|---|---|---|---|"]
for m in sorted(glob.glob(os.path.join(root, "seeded", "*", "meta.json"))):
    d = json.load(open(m))
    esc = lambda s: s.replace("|", "\\|").replace("\n", " ")
    rows.append("| %s | %s | %s | %s |" % (os.path.basename(os.path.dirname(m)), d["breaks_property"],
                                         esc(d["needs_to_manifest"]), esc(d["detected_by"])))
p = os.path.join(root, "DESIGN.md")
s = open(p).read()
s = re.sub(r"(<!-- SEEDTABLE BEGIN -->\n).*?(<!-- SEEDTABLE END -->)", lambda mm: mm.group(1) + "\n".join(rows) + "\n" + mm.group(2), s, flags=re.S)
open(p, "w").write(s)
print(len(rows) - 2, "seeds")

#!/usr/bin/env python3
"""Regenerates MANIFEST.json from the table below (kept in one place so that it is always schema-valid).
Validate with: python3-vt bin/mkmanifest.py --validate"""
import json
import os
import sys

V = os.path.dirname(os.path.dirname(os.path.abspath(__file__)))
props = [json.loads(l) for l in open(os.path.join(V, "properties.jsonl"))]
TECH = "TLA+ spec + TLC (design check, behaviour generation replayed on the code, trace validation)"


def chk(pid, level, text, note, tech=TECH, ref=None):
    return {"property_id": pid,
            "quick_cmd": "bin/verif check %s --tier quick" % pid,
            "thorough_cmd": "bin/verif check %s --tier thorough" % pid,
            "evidence_file": "/verif/evidence/%s.json" % pid,
            "replay_cmd_template": "bin/verif replay {path}",
            "engine": "tla-model-based",
            "level_claimed": {"category": level, "text": text, "design_ref": ref or "DESIGN.md section 5, " + pid},
            "level_note": note,
            "technique": tech}


checks = [
    chk("C13", "model_checking",
        "TLC explores spec/InstMgr.tla exhaustively for a 3-object pool (every clause of the statement is an "
        "invariant or action property); every call history up to length 4 (quick) / 5 (thorough) that the module "
        "admits, plus long random ones, is replayed on the real InstMgr and the real projection compared with the "
        "module's prediction after every call; random 200-call executions of the real manager are validated call "
        "by call against the module by TLC.",
        "Trusts TLC, the projection code in harness/cpp/instmgr_drv.cc, and that callers respect the stated API "
        "preconditions (ids changed only outside the manager, destroyed instances not reused). Exhaustive only "
        "within the stated pool and length bounds."),
]

NOT_BUILT = "not built yet (planned, see DESIGN.md section 5)"
NA = {}

done = {c["property_id"] for c in checks}
m = {"version": 1,
     "setup_cmd": "bin/verif setup",
     "hooks": {"guard": "SC_VERIF_HOOKS",
               "enable": "checks configure /repo into /verif/.work/build-<cfg> with -DSC_VERIF_HOOKS in "
                         "CMAKE_C_FLAGS/CMAKE_CXX_FLAGS (bin/verif build)",
               "baseline_off_cmd": "bin/baseline.sh", "source_commits": [], "add_only": True},
     "engines": [{"name": "tla-model-based", "path": "bin/verif", "serves_properties": sorted(done),
                  "kind_free_text": "explicit TLA+ specification (spec/*.tla) checked by TLC; bound to the code by "
                                    "replaying TLC-generated behaviours on the implementation and by validating "
                                    "recorded implementation traces against the specification"}],
     "checks": checks,
     "notes": "See DESIGN.md. Known findings and fixed defects: known_findings.json. Seeded changes: seeded/.",
     "not_applicable": [{"property_id": p["id"], "reason": NA.get(p["id"], NOT_BUILT)} for p in props
                        if p["id"] not in done]}
if "--validate" in sys.argv:
    import jsonschema
    jsonschema.validate(m, json.load(open("/root/.vp/MANIFEST.schema.json")))
    es = json.load(open("/root/.vp/EVIDENCE.schema.json"))
    for c in checks:
        p = c["evidence_file"]
        if os.path.exists(p):
            jsonschema.validate(json.load(open(p)), es)
            print("evidence ok:", p)
    print("manifest ok")
json.dump(m, open(os.path.join(V, "MANIFEST.json"), "w"), indent=1)

#!/bin/sh
# The repository's pinned baseline with the hook guard OFF (plain build in /repo/_build, as in /root/.vp/BASELINE.json).
# The one test the baseline lists as always failing (a 15-minute time-out) is skipped unless FULL=1.
set -e
cd /repo/_build
cmake --build . >/dev/null 2>/verif/.work/baseline-build.err || { echo "BASELINE BUILD FAILED (see /verif/.work/baseline-build.err): 0% tests passed, build tests failed"; tail -5 /verif/.work/baseline-build.err; exit 2; }
if [ -n "$FULL" ]; then exec ctest --test-dir /repo/_build -j8 --timeout 900; fi
exec ctest --test-dir /repo/_build -j8 --timeout 900 -E 'read_write_cpp_sdai_ifc2x3_Bien-Zenker'

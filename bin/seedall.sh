#!/bin/sh
# usage: bin/seedall.sh [tier] - applies every stored seeded change in turn to /repo, runs the check of the property it
# breaks, restores the tree; prints one line per seed (caught / MISSED / patch-does-not-apply).  /repo must be clean.
tier=${1:-quick}
cd /verif
for d in seeded/*/; do
  id=$(basename $d)
  prop=$(python3 -c "import json;print(json.load(open('$d/meta.json'))['breaks_property'])")
  if ! git -C /repo apply --check /verif/$d/patch.diff 2>/dev/null; then echo "$id $prop patch-does-not-apply"; continue; fi
  git -C /repo apply /verif/$d/patch.diff
  bin/verif check $prop --tier $tier > .work/seedall-$id.log 2>&1
  rc=$?
  git -C /repo checkout -- .
  n=$(grep -c '^VIOLATION' .work/seedall-$id.log)
  if [ $rc -eq 1 ] && [ $n -gt 0 ]; then echo "$id $prop caught ($n violation lines)"; elif [ $rc -eq 2 ]; then echo "$id $prop INFRA (rc 2)"; else echo "$id $prop MISSED (rc $rc)"; fi
done
bin/verif build plain >/dev/null 2>&1

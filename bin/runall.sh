#!/bin/sh
# run every registered check of a tier, print one line per property
tier=${1:-quick}
cd /verif
for p in $(python3 -c "import json;print(' '.join(c['property_id'] for c in json.load(open('MANIFEST.json'))['checks']))"); do
  s=$(date +%s)
  bin/verif check $p --tier $tier > .work/runall-$p.log 2>&1
  rc=$?
  echo "$p rc=$rc $(( $(date +%s) - s ))s viol=$(grep -c '^VIOLATION' .work/runall-$p.log) known=$(grep -c '^KNOWN-FINDING' .work/runall-$p.log)"
done

#!/bin/sh
# usage: bin/confirmseed.sh <PROP> [tiers...] - applies /tmp/seed-<PROP>/seed_out/patch.diff to /repo, runs the pinned baseline, the demo
# and the property's check(s), reverts; prints a summary.  (demo is also run on the unchanged tree afterwards)
p=$1; shift; tiers=${*:-quick}
wt=${WT:-/tmp/seed-$p}
git -C /repo apply $wt/seed_out/patch.diff || exit 2
# (the first run after a revert of the tracked build directory may rebuild while tests run: repeat once on failure)
/verif/bin/baseline.sh > /verif/.work/confirm-baseline.log 2>&1 || /verif/bin/baseline.sh > /verif/.work/confirm-baseline.log 2>&1
grep "tests passed\|tests failed" /verif/.work/confirm-baseline.log | head -2
(cd $wt/seed_out && bash demo/run.sh /repo/_build > /verif/.work/demo-$p-patched.log 2>&1; echo "demo patched: $?")
for t in $tiers; do /verif/bin/verif check $p --tier $t > /verif/.work/seedtest-$p-$t.log 2>&1; echo "$t check rc=$? viol=$(grep -c '^VIOLATION' /verif/.work/seedtest-$p-$t.log)"; done
git -C /repo checkout -- .
/verif/bin/verif build plain >/dev/null 2>&1
(cd /repo/_build && cmake --build . >/dev/null 2>&1)
(cd $wt/seed_out && bash demo/run.sh /repo/_build > /verif/.work/demo-$p-clean.log 2>&1; echo "demo unchanged: $?")

#!/bin/sh
# usage: bin/seedall2.sh [tier] [seed-id ...] - like seedall.sh, but on a scratch worktree of /repo's HEAD (removed at
# the end), so /repo itself is never touched and the evidence of /repo is not replaced: each stored seeded change is
# applied to the scratch tree, the check of the property it breaks is run with VERIF_REPO pointing at it, the change is undone.
tier=${1:-quick}; [ $# -gt 0 ] && shift
T=/tmp/seedtree
cd /verif
git -C /repo worktree remove --force $T 2>/dev/null
git -C /repo worktree add --detach $T HEAD >/dev/null 2>&1 || { echo "cannot create $T"; exit 2; }
rm -f /repo/.git/gc.log
ids=${*:-$(ls seeded)}
for id in $ids; do
  d=seeded/$id
  prop=$(python3 -c "import json;print(json.load(open('$d/meta.json'))['breaks_property'])")
  if ! git -C $T apply --check /verif/$d/patch.diff 2>/dev/null; then echo "$id $prop patch-does-not-apply"; continue; fi
  git -C $T apply /verif/$d/patch.diff
  VERIF_REPO=$T bin/verif check $prop --tier $tier > .work/seedall-$id.log 2>&1
  rc=$?
  git -C $T checkout -- .
  n=$(grep -c '^VIOLATION' .work/seedall-$id.log)
  if [ $rc -eq 1 ] && [ $n -gt 0 ]; then echo "$id $prop caught ($n violation lines)"; elif [ $rc -eq 2 ]; then echo "$id $prop INFRA (rc 2)"; else echo "$id $prop MISSED (rc $rc)"; fi
done
git -C /repo worktree remove --force $T
rm -rf /verif/.work-$(python3 -c "import hashlib;print(hashlib.sha1(b'$T').hexdigest()[:8])")

#!/bin/sh
# usage: bin/keepseed.sh <worktree> <seed-id> <PROP> "<needs>" "<caught-by>"
set -e
wt=$1; id=$2; prop=$3; needs=$4; caught=$5
d=/verif/seeded/$id
mkdir -p $d
cp $wt/seed_out/patch.diff $d/patch.diff
rm -rf $d/demo; cp -r $wt/seed_out/demo $d/demo
cp $wt/seed_out/NOTES.md $d/NOTES.md 2>/dev/null || true
python3 - "$d" "$prop" "$needs" "$caught" <<'PY'
import json,sys
d,prop,needs,caught=sys.argv[1:5]
json.dump({"breaks_property":prop,"needs_to_manifest":needs,
 "confirmed":["demo/run.sh /repo exits 0 on the unchanged tree and non-zero with patch.diff applied",
              "bin/baseline.sh (258 pinned tests) passes with patch.diff applied"],
 "ran":["git -C /repo apply patch.diff","sh demo/run.sh /repo","bin/baseline.sh","bin/verif check %s --tier quick"%prop,"git -C /repo checkout -- ."],
 "detected_by":caught},open(d+"/meta.json","w"),indent=1)
PY
git -C /repo worktree remove --force $wt
/verif/bin/seedtable.py
echo kept $d

"""C15 - strict and lenient handling of missing required attributes.

The decision table MissingOutcome(kind, OPTIONAL, mode, form) of spec/P21Read.tla is the statement; TLC enumerates
the complete table x position x context (plain / inherited / part of a complex instance).  Every case is rendered
as an exchange file for schemas/kinds.exp, read by the real STEPfile in the case's mode and written back; file
severity, exit status and the value written back are logged and judged by TLC (spec/P21Read_Trace.tla).
"""
import json
import os
import shutil

from vf import kinds, p21, sess, tlc
from vf.common import InfraError, mkdir


def family_lines(ctx, wd):
    """C15 on generated schemas (spec/Population_GenMissing.tla): every parameter of every instance of the family's
    conforming populations replaced by `$`, read in both modes by a reader built against the schema's own generated
    library; same events, same trace specification."""
    import concurrent.futures as cf
    from checks import c01
    from vf import build, express
    from vf.common import sha
    cases = []
    g = tlc.run_tlc("Population_GenMissing", None, workers=4, timeout=900, on_case=cases.append,
                    cfg_text="CONSTANTS Deep = %s Rounds = %d\nINIT Init\nNEXT Next\nINVARIANT Emit\n" % ("FALSE" if ctx.quick else "TRUE", 0 if ctx.quick else 1))
    if g.rc != 0 or g.errors:
        raise InfraError("Population_GenMissing failed: %s" % g.tail[-10:])
    by = {}
    for c in cases:
        by.setdefault(json.dumps(c["choice"], sort_keys=True), []).append(c)
    keys = sorted(by)
    if ctx.quick:
        strata = {}
        for k in keys:
            ch = json.loads(k)
            strata.setdefault((ch["inh"], ch["ts"]["k"], ch["ts"].get("of", ""), ch["ak"]), []).append(k)
        keys = sorted(v[len(v) // 2] for v in strata.values())

    def refs_of(v, acc):
        if v["k"] == "ref":
            acc.add(v["id"])
        elif v["k"] == "typed":
            refs_of(v["v"], acc)
        elif v["k"] == "list":
            for x in v["items"]:
                refs_of(x, acc)
        return acc

    def one(k):
        cs = by[k]
        txt = express.render(cs[0]["schema"])
        tag0 = "c02_" + sha(txt)[:10]
        try:
            lib = build.schema_lib(tag0, txt)
            drv = build.link_driver("session_" + tag0, [c01.DRV], schema=lib)
        except build.BuildFailure as ex:
            return k, None, str(ex)[-400:]
        bwd = mkdir(os.path.join(wd, "fam_" + sha(k)[:8]))
        head = "ISO-10303-21;\n" + p21.HEADER % cs[0]["schema"]["name"].upper() + "DATA;\n"
        scripts, metas = [], []
        for c in cs:
            pop = c["pop"]
            for pl in sorted(c["places"], key=lambda x: (x["i"], x["j"])):
                for strict in (False, True):
                    lines = []
                    for q, inst in enumerate(pop):
                        ps = [c01.aval(v) for v in inst["params"]]
                        if q + 1 == pl["i"]:
                            lay = (pl["i"] + pl["j"] + int(strict)) % 5
                            ps[pl["j"] - 1] = ["$", "$ /* unset */", "/* unset */ $", "\n  $\n", " $/* ; */"][lay]
                        lines.append("#%d=%s(%s);" % (inst["id"], inst["ent"].upper(), ",".join(ps)))
                    fid = pop[pl["i"] - 1]["id"]
                    touched = {fid}
                    for _ in range(4):
                        for inst in pop:
                            rs = set()
                            for pv in inst["params"]:
                                refs_of(pv, rs)
                            if rs & touched:
                                touched.add(inst["id"])
                    t2 = "M%s_%d_%d_%d_%d" % (sha(k)[:8], c["n"], pl["i"], pl["j"], int(strict))
                    fp = os.path.join(bwd, t2 + ".p21")
                    open(fp, "w").write(head + "\n".join(lines) + "\nENDSEC;\nEND-ISO-10303-21;\n")
                    op = os.path.join(bwd, t2 + "_o.p21")
                    scripts.append((t2, ["new %d" % int(strict), "read " + fp, "states", "writenv " + op]))
                    metas.append((t2, c, pl, strict, fid, touched, lines, op))
        res = {}
        for b in range(0, len(scripts), 200):
            res.update(sess.run_scripts(drv, scripts[b:b + 200], bwd, timeout=600))
        evs = []
        for t2, c, pl, strict, fid, touched, lines, op in metas:
            r = res.get(t2, [])
            rd = r[1] if len(r) > 1 else {}
            ev = {"e": "Missing", "kind": pl["kind"], "opt": pl["opt"], "strict": strict, "form": "$",
                  "ctx": "generated:inherited" if pl["inherited"] else "generated:own", "pos": pl["j"], "tag": t2}
            if rd.get("cmd") != "read" or len(r) < 4 or r[3].get("cmd") != "writenv":
                ev.update({"sev": -9, "exit": -1, "wclass": "crash", "others_ok": False})
            else:
                ev["sev"] = rd["esev"]
                ev["exit"] = 1 if rd["esev"] <= 1 else 0
                try:
                    d = p21.parse(open(op).read())
                    got = {x["id"]: x for x in d["data"]}
                    me = got.get(fid)
                    if me is None:
                        ev["wclass"] = "absent"
                    else:
                        ev["wclass"] = kinds.wclass(me["parts"][0][1][pl["j"] - 1])
                    ok = True
                    for q, inst in enumerate(c["pop"]):
                        if inst["id"] in touched:
                            continue
                        want = p21.Parser(lines[q]).instance(False)
                        g1 = got.get(inst["id"])
                        if g1 is None or len(g1["parts"][0][1]) != len(want["parts"][0][1]) or \
                                not all(c01.same_value(u, v) for u, v in zip(want["parts"][0][1], g1["parts"][0][1])):
                            ok = False
                            ev["why"] = "#%d comes back as %s" % (inst["id"], p21.render_instance(g1) if g1 else None)
                            break
                    ev["others_ok"] = ok
                except Exception as ex:   # unparsable / missing output
                    ev["wclass"] = "unreadable:" + str(ex)[:60]
                    ev["others_ok"] = False
            evs.append((json.dumps(ev), (c["choice"], pl, "\n".join(lines))))
        shutil.rmtree(bwd, ignore_errors=True)
        return k, evs, ""
    out = []
    with cf.ThreadPoolExecutor(max_workers=3) as ex:
        for k, evs, err in ex.map(one, keys):
            if evs is None:
                ctx.violation("family-build|" + k, "generated library of a family schema does not build: " + err[-200:], {"choice": k})
                continue
            out.extend(evs)
    return out, len(keys)


def run(ctx):
    cov = {}
    drv = kinds.driver()
    wd = os.path.join(ctx.work, "s")
    shutil.rmtree(wd, ignore_errors=True)
    mkdir(wd)
    cases = []
    g = tlc.run_tlc("P21Read_GenMissing", None, workers=4, timeout=900, on_case=cases.append,
                    cfg_text="INIT Init\nNEXT Next\nINVARIANT Emit\nINVARIANT Sane\n")
    if g.rc != 0 or g.errors:
        if g.violated:
            ctx.violation("design|" + ",".join(g.violated), "P21Read decision table is inconsistent", {"tlc": g.tail[-30:]})
        else:
            raise InfraError("P21Read_GenMissing failed: %s" % g.tail[-10:])
    cov["states"], cov["transitions"] = g.distinct, g.generated
    scripts, meta = [], {}
    # neighbours: thorough varies what surrounds the instance under test
    variants = [0] if ctx.quick else [0, 1, 2]
    # record layout: what stands around the unset value - nothing, a comment after it, a comment before it, line breaks
    # (separators from spec/P21Sep.tla; the layouts rotate with the case, the thorough tier takes every layout)
    from vf import seps
    sp = seps.Spacer("comments", ctx.seed)
    LAY = [lambda: ("", ""), lambda: ("", " " + sp()), lambda: (sp() + " ", ""), lambda: ("\n  ", "\n"), lambda: (" ", sp())]
    for i, c in enumerate(cases):
        for var in (variants if ctx.quick else [v * 10 + l for v in variants for l in range(len(LAY))]):
            lay = (i + var) % len(LAY) if ctx.quick else var % 10
            var = var if ctx.quick else var // 10
            txt, where = kinds.missing_case(c, *LAY[lay]())
            if var == 0:
                insts = ["TGT(1)", txt, "TGT(3)"]
                idx = 1
            elif var == 1:
                insts = ["TGT(1)", "R_STR('a','b','c')", txt]
                idx = 2
            else:
                insts = ["TGT(1)", txt, "O_ENUM(.RED.,$,.BLUE.)", "TGT(4)"]
                idx = 1
            tag = "%d_%d_%d" % (i, var, lay)
            f = os.path.join(wd, "c%s.p21" % tag)
            open(f, "w").write(kinds.file_of(insts))
            out = os.path.join(wd, "o%s.p21" % tag)
            scripts.append((tag, ["new %d" % (1 if c["strict"] else 0), "read " + f, "states", "writenv " + out]))
            meta[tag] = (c, where, idx, insts, out)
    res = {}
    B = 200
    import concurrent.futures as cf
    with cf.ThreadPoolExecutor(max_workers=8) as ex:
        for r in ex.map(lambda k: sess.run_scripts(drv, scripts[k:k + B], mkdir(os.path.join(wd, "b%d" % k))),
                        range(0, len(scripts), B)):
            res.update(r)
    trace = os.path.join(wd, "trace.ndjson")
    lines = []
    for tag, (c, where, idx, insts, out) in meta.items():
        r = res.get(tag, [])
        rd = r[1] if len(r) > 1 else {}
        ev = {"e": "Missing", "kind": c["kind"], "opt": c["opt"], "strict": c["strict"], "form": c["form"],
              "ctx": c["ctx"], "pos": c["pos"], "tag": tag}
        if rd.get("cmd") != "read" or len(r) < 4 or r[3].get("cmd") != "writenv":
            ev.update({"sev": -9, "exit": -1, "wclass": "crash", "others_ok": False})
        else:
            ev["sev"] = rd["esev"]
            ev["exit"] = 1 if rd["esev"] <= 1 else 0     # what p21read does with this severity
            try:
                d = p21.parse(open(out).read())
                inst = [x for x in d["data"] if x["id"] == idx + 1][0]
                ev["wclass"] = kinds.wclass(inst["parts"][where[0]][1][where[1]])
                others = [p21.render_instance(x).split("=", 1)[1].rstrip(";") for x in d["data"] if x["id"] != idx + 1]
                ev["others_ok"] = others == [t for k, t in enumerate(insts) if k != idx]
            except Exception as ex:   # unparsable / missing output
                ev["wclass"] = "unreadable:" + str(ex)[:60]
                ev["others_ok"] = False
        lines.append(json.dumps(ev))
    fam, nfam = family_lines(ctx, wd)
    fmeta = {}
    for ln, m in fam:
        fmeta[json.loads(ln)["tag"]] = m
        lines.append(ln)
    open(trace, "w").write("\n".join(lines) + "\n")
    got = []
    r = tlc.run_tlc("P21Read_Trace", "P21Read_Trace.cfg", workers=1, timeout=900, env={"TRACE": trace}, on_case=got.append)
    if r.rc != 0 or r.post_violated or r.errors:
        raise InfraError("P21Read_Trace did not consume the record: rc=%s %s" % (r.rc, r.tail[-12:]))
    for rep in got:
        ev = rep["ev"]
        if ev["tag"] in fmeta:
            choice, pl, body = fmeta[ev["tag"]]
            key = "dev:" + rep["dev"] if rep["dev"] else "%s|%s|opt=%s|strict=%s|%s" % (rep["what"], ev["kind"], ev["opt"], ev["strict"], ev["ctx"])
            ctx.violation(key, "generated schema: missing %s attribute (%s, %s, %s, parameter %d): must %s, observed severity %s, written %s %s"
                          % (ev["kind"], "OPTIONAL" if ev["opt"] else "required", "strict" if ev["strict"] else "lenient", ev["ctx"],
                             ev["pos"], rep["what"], ev["sev"], ev["wclass"], ev.get("why", "")),
                          {"choice": choice, "place": pl, "data_section": body, "event": ev})
            continue
        c, where, idx, insts, out = meta[ev["tag"]]
        if rep["dev"]:
            key = "dev:" + rep["dev"]
        else:
            key = "%s|%s|opt=%s|strict=%s|form=%r|%s" % (rep["what"], ev["kind"], ev["opt"], ev["strict"], ev["form"], ev["ctx"])
        ctx.violation(key, "missing %s attribute (%s, %s, form %r, %s pos %d): must %s, observed severity %s, written %s"
                      % (ev["kind"], "OPTIONAL" if ev["opt"] else "required", "strict" if ev["strict"] else "lenient",
                         ev["form"], ev["ctx"], ev["pos"], rep["what"], ev["sev"], ev["wclass"]),
                      {"case": c, "file": kinds.file_of(insts), "event": ev})
    shutil.rmtree(wd, ignore_errors=True)
    cov.update({"traces_validated_against_impl": len(lines), "exhaustive": True, "cases": len(cases), "family_schemas": nfam, "family_places_x_modes": len(fam),
                "disagreeing": len(got),
                "samples": [json.loads(lines[0]), json.loads(lines[len(lines) // 2])],
                "evaluations": len(lines), "distinct_nontrivial": len(lines),
                "rule": "kind(12) x OPTIONAL x mode x form($|empty) x position(3) + inherited and complex-part "
                        "positions; all distinct"})
    return {"level": "model_checking", "coverage": cov, "assumptions": [
        "the empty form for a required INTEGER/REAL/NUMBER/STRING in lenient mode is 'free': the statement reads it "
        "as unset, the repository's pinned test test_multiple_inheritance_derived_16 (AA(); must fail) as an error",
        "exit status is derived from the file severity exactly as src/test/p21read/p21read.cc does (<= INCOMPLETE)"]}

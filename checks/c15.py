"""C15 - strict and lenient handling of missing required attributes.

The decision table MissingOutcome(kind, OPTIONAL, mode, form) of spec/P21Read.tla is the statement; TLC enumerates
the complete table x position x context (plain / inherited / part of a complex instance).  Every case is rendered
as an exchange file for schemas/kinds.exp, read by the real STEPfile in the case's mode and written back; file
severity, exit status and the value written back are logged and judged by TLC (spec/P21Read_Trace.tla).
"""
import json
import os
import shutil

from vf import kinds, p21, sess, tlc
from vf.common import InfraError, mkdir


def run(ctx):
    cov = {}
    drv = kinds.driver()
    wd = os.path.join(ctx.work, "s")
    shutil.rmtree(wd, ignore_errors=True)
    mkdir(wd)
    cases = []
    g = tlc.run_tlc("P21Read_GenMissing", None, workers=4, timeout=900, on_case=cases.append,
                    cfg_text="INIT Init\nNEXT Next\nINVARIANT Emit\nINVARIANT Sane\n")
    if g.rc != 0 or g.errors:
        if g.violated:
            ctx.violation("design|" + ",".join(g.violated), "P21Read decision table is inconsistent", {"tlc": g.tail[-30:]})
        else:
            raise InfraError("P21Read_GenMissing failed: %s" % g.tail[-10:])
    cov["states"], cov["transitions"] = g.distinct, g.generated
    scripts, meta = [], {}
    # neighbours: thorough varies what surrounds the instance under test
    variants = [0] if ctx.quick else [0, 1, 2]
    for i, c in enumerate(cases):
        for var in variants:
            txt, where = kinds.missing_case(c)
            if var == 0:
                insts = ["TGT(1)", txt, "TGT(3)"]
                idx = 1
            elif var == 1:
                insts = ["TGT(1)", "R_STR('a','b','c')", txt]
                idx = 2
            else:
                insts = ["TGT(1)", txt, "O_ENUM(.RED.,$,.BLUE.)", "TGT(4)"]
                idx = 1
            tag = "%d_%d" % (i, var)
            f = os.path.join(wd, "c%s.p21" % tag)
            open(f, "w").write(kinds.file_of(insts))
            out = os.path.join(wd, "o%s.p21" % tag)
            scripts.append((tag, ["new %d" % (1 if c["strict"] else 0), "read " + f, "states", "writenv " + out]))
            meta[tag] = (c, where, idx, insts, out)
    res = {}
    B = 200
    import concurrent.futures as cf
    with cf.ThreadPoolExecutor(max_workers=8) as ex:
        for r in ex.map(lambda k: sess.run_scripts(drv, scripts[k:k + B], mkdir(os.path.join(wd, "b%d" % k))),
                        range(0, len(scripts), B)):
            res.update(r)
    trace = os.path.join(wd, "trace.ndjson")
    lines = []
    for tag, (c, where, idx, insts, out) in meta.items():
        r = res.get(tag, [])
        rd = r[1] if len(r) > 1 else {}
        ev = {"e": "Missing", "kind": c["kind"], "opt": c["opt"], "strict": c["strict"], "form": c["form"],
              "ctx": c["ctx"], "pos": c["pos"], "tag": tag}
        if rd.get("cmd") != "read" or len(r) < 4 or r[3].get("cmd") != "writenv":
            ev.update({"sev": -9, "exit": -1, "wclass": "crash", "others_ok": False})
        else:
            ev["sev"] = rd["esev"]
            ev["exit"] = 1 if rd["esev"] <= 1 else 0     # what p21read does with this severity
            try:
                d = p21.parse(open(out).read())
                inst = [x for x in d["data"] if x["id"] == idx + 1][0]
                ev["wclass"] = kinds.wclass(inst["parts"][where[0]][1][where[1]])
                others = [p21.render_instance(x).split("=", 1)[1].rstrip(";") for x in d["data"] if x["id"] != idx + 1]
                ev["others_ok"] = others == [t for k, t in enumerate(insts) if k != idx]
            except Exception as ex:   # unparsable / missing output
                ev["wclass"] = "unreadable:" + str(ex)[:60]
                ev["others_ok"] = False
        lines.append(json.dumps(ev))
    open(trace, "w").write("\n".join(lines) + "\n")
    got = []
    r = tlc.run_tlc("P21Read_Trace", "P21Read_Trace.cfg", workers=1, timeout=900, env={"TRACE": trace}, on_case=got.append)
    if r.rc != 0 or r.post_violated or r.errors:
        raise InfraError("P21Read_Trace did not consume the record: rc=%s %s" % (r.rc, r.tail[-12:]))
    for rep in got:
        ev = rep["ev"]
        c, where, idx, insts, out = meta[ev["tag"]]
        if rep["dev"]:
            key = "dev:" + rep["dev"]
        else:
            key = "%s|%s|opt=%s|strict=%s|form=%r|%s" % (rep["what"], ev["kind"], ev["opt"], ev["strict"], ev["form"], ev["ctx"])
        ctx.violation(key, "missing %s attribute (%s, %s, form %r, %s pos %d): must %s, observed severity %s, written %s"
                      % (ev["kind"], "OPTIONAL" if ev["opt"] else "required", "strict" if ev["strict"] else "lenient",
                         ev["form"], ev["ctx"], ev["pos"], rep["what"], ev["sev"], ev["wclass"]),
                      {"case": c, "file": kinds.file_of(insts), "event": ev})
    shutil.rmtree(wd, ignore_errors=True)
    cov.update({"traces_validated_against_impl": len(lines), "exhaustive": True, "cases": len(cases),
                "disagreeing": len(got),
                "samples": [json.loads(lines[0]), json.loads(lines[len(lines) // 2])],
                "evaluations": len(lines), "distinct_nontrivial": len(lines),
                "rule": "kind(12) x OPTIONAL x mode x form($|empty) x position(3) + inherited and complex-part "
                        "positions; all distinct"})
    return {"level": "model_checking", "coverage": cov, "assumptions": [
        "the empty form for a required INTEGER/REAL/NUMBER/STRING in lenient mode is 'free': the statement reads it "
        "as unset, the repository's pinned test test_multiple_inheritance_derived_16 (AA(); must fail) as an error",
        "exit status is derived from the file severity exactly as src/test/p21read/p21read.cc does (<= INCOMPLETE)"]}

"""C17 - the build-time scanner predicts exactly the files the C++ generator writes.

spec/Schema.tla!Files(s) states which declarations get a header/implementation pair (entities, enumerations and
selects declared with their own items/members - not simple, aggregate or renamed types) next to the fixed
per-schema files.  For every schema of the valid family (spec/Schema_Gen.tla) the freshly built schema_scanner
(built as cmake/schema_scanner/schemaScanner.cmake builds it) and exp2cxx are run; the lists in the emitted
CMakeLists.txt, the directory listing of the generator and Files(s) must agree, and so must the directory/library
name.
"""
import concurrent.futures as cf
import json
import os
import re
import shutil
import subprocess

from checks import frontend_common as fc
from vf import build, express
from vf.common import mkdir


def cap(n):
    return n[0].upper() + n[1:].lower()


def spec_files(files, schema):
    S = schema.upper()
    out = {"SdaiAll.cc", "compstructs.cc", "schema.cc", "schema.h", "Sdaiclasses.h", "Sdai%s.cc" % S, "Sdai%s.h" % S,
           "Sdai%s.init.cc" % S, "Sdai%sNames.h" % S}
    unity = {"Sdai%s_unity_entities.cc" % S, "Sdai%s_unity_entities.h" % S, "Sdai%s_unity_types.cc" % S, "Sdai%s_unity_types.h" % S}
    for f in files:
        if f["k"] == "entity":
            base = "entity/Sdai%s" % cap(f["name"])
        elif f["k"] == "enum":
            base = "type/Sdai%s_var" % cap(f["name"])
        else:
            base = "type/Sdai%s" % cap(f["name"])
        out |= {base + ".h", base + ".cc"}
    return out, unity


def scanner_lists(text):
    """file names in the set(...) lists of the emitted CMakeLists.txt (non-unity branch for the implementations)"""
    names = set()
    proj = re.search(r"PROJECT\((\S+)\)", text)
    for m in re.finditer(r"set\(\s*(\S+?_(?:entity_hdrs|type_hdrs|misc_hdrs|entity_impls|type_impls|misc_impls))\s+(.*?)\)", text, re.S):
        for tok in m.group(2).split():
            names.add(tok)
    return names, proj.group(1) if proj else None


def run(ctx):
    bdir = build.core("plain")
    scan = build.scanner("plain")
    cases, g = fc.gen(ctx, with_mutants=False)
    wd = os.path.join(ctx.work, "s")
    shutil.rmtree(wd, ignore_errors=True)
    mkdir(wd)
    extra = [("", ""), ("", "TYPE e_only = ENUMERATION OF (one);\nEND_TYPE;\nENTITY Mixed_Case_Name;\n  q : e_only;\nEND_ENTITY;\n")]

    def one(a):
        i, c, (head, body) = a
        d = mkdir(os.path.join(wd, "c%d_%d" % (i, 1 if body else 0)))
        # the scanner derives the directory / library name from the shorter of file name and schema name: a file
        # name longer than every schema name makes it the schema name (the collision of short names in a
        # multi-schema file is probed separately below)
        src = os.path.join(d, "model_schema_file.exp")
        open(src, "w").write(express.render(c["schema"], head, body))
        gd, sd = mkdir(os.path.join(d, "g")), mkdir(os.path.join(d, "s"))
        pg = subprocess.run([os.path.join(bdir, "bin", "exp2cxx"), src], cwd=gd, stdout=subprocess.PIPE, stderr=subprocess.PIPE, timeout=120)
        ps = subprocess.run([scan, src], cwd=sd, stdout=subprocess.PIPE, stderr=subprocess.PIPE, timeout=120)
        listing = set()
        for root, _, fs in os.walk(gd):
            for f in fs:
                listing.add(os.path.relpath(os.path.join(root, f), gd))
        cm = {}
        for root, _, fs in os.walk(sd):
            for f in fs:
                if f == "CMakeLists.txt":
                    cm[os.path.basename(root)] = open(os.path.join(root, f)).read()
        collide = None
        if c["schema"]["aux"]:
            # same input under a file name shorter than the schema names: both schemas map to one directory
            s2 = mkdir(os.path.join(d, "s2"))
            shutil.copy(src, os.path.join(d, "m.exp"))
            subprocess.run([scan, os.path.join(d, "m.exp")], cwd=s2, stdout=subprocess.PIPE, stderr=subprocess.PIPE, timeout=120)
            collide = sorted(x for x in os.listdir(s2))
        shutil.rmtree(d, ignore_errors=True)
        return i, c, body, pg.returncode, ps.returncode, listing, cm, collide
    # (the three-schema files of the family belong to the front-end checks: their file lists are not modelled here)
    jobs = [(i, c, e) for i, c in enumerate(cases) if not c["schema"].get("aux3") for e in (extra if not c["schema"]["aux"] else extra[:1])]
    n = dis = 0
    samples = []
    with cf.ThreadPoolExecutor(max_workers=12) as ex:
        for i, c, body, rcg, rcs, listing, cm, collide in ex.map(one, jobs):
            n += 1
            files = list(c["files"])
            if body:
                files += [{"k": "enum", "name": "e_only"}, {"k": "entity", "name": "Mixed_Case_Name"}]
            want, unity = spec_files(files, "m")
            key0 = json.dumps(c["choice"], sort_keys=True) + ("+extra" if body else "")
            if rcg != 0 or rcs != 0:
                ctx.violation("tool-failed|%s" % key0, "exp2cxx rc=%s, schema_scanner rc=%s on a valid schema" % (rcg, rcs),
                              {"choice": c["choice"], "input": express.render(c["schema"], "", body)})
                continue
            problems = []
            if c["schema"]["aux"]:
                w2, u2 = spec_files([{"k": "entity", "name": "remote_e"}], "aux")
                want, unity = want | w2, unity | u2
                dirs = ["sdai_m", "sdai_aux"]
            else:
                dirs = ["sdai_m"]
            sc_names = set()
            for dname in dirs:
                if dname not in cm:
                    problems.append("scanner wrote no %s/CMakeLists.txt (dirs: %s)" % (dname, sorted(cm)))
                    continue
                names, proj = scanner_lists(cm[dname])
                sc_names |= names
                if proj != dname:
                    problems.append("library name %s, expected %s" % (proj, dname))
            if sorted(cm) != sorted(dirs):
                problems.append("scanner directories %s, expected %s" % (sorted(cm), dirs))
            if listing - unity != want:
                problems.append("generator wrote files that differ from Files(s): %s" % sorted((listing - unity) ^ want))
            if sc_names - unity != want:
                problems.append("scanner lists differ from Files(s): %s" % sorted((sc_names - unity) ^ want))
            if (sc_names - unity) != (listing - unity):
                problems.append("scanner vs generator: %s" % sorted((sc_names - unity) ^ (listing - unity)))
            if not unity <= listing:
                problems.append("unity files missing: %s" % sorted(unity - listing))
            if collide is not None and len(collide) < 2:
                ctx.violation("dev:Dev_ShortNameCollision", "two schemas of one file named m.exp are both given the directory %s: "
                              "the build description of one of them is overwritten" % collide,
                              {"choice": c["choice"], "input": express.render(c["schema"], "", body)})
            if len(samples) < 1:
                samples.append({"choice": c["choice"], "files_spec": sorted(want)[:8], "scanner": sorted(sc_names)[:8]})
            if problems:
                dis += 1
                ctx.violation("files|%s|%s" % (key0, problems[0][:80]), "; ".join(problems)[:600],
                              {"choice": c["choice"], "input": express.render(c["schema"], "", body), "problems": problems})
    shutil.rmtree(wd, ignore_errors=True)
    cov = {"programs": n, "disagreements_checked": n * 3, "disagreements_found": dis, "samples": samples,
           "states": g.distinct, "evaluations": n, "distinct_nontrivial": n,
           "rule": "valid schema family of spec/Schema.tla (+ a variant with a mixed-case entity name and a one-item "
                   "enumeration); three-way comparison Files(s) / scanner lists / generator listing"}
    return {"level": "translation_validation", "coverage": cov, "assumptions": [
        "file names are derived from declaration names by the generator's capitalisation rule (first letter upper, "
        "rest lower); which declarations get files is decided by Schema!Files",
        "for two-schema inputs only the primary schema's lists are compared"]}

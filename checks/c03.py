"""C03 - the reader never reports a schema-violating exchange file as clean.

spec/P21Read.tla lists the fifteen violation classes of the statement, the literal classes that are clearly wrong
for each attribute kind, the damaged region of each class and the verdict Detected / Confined.  TLC enumerates
class x kind x parameter position x place of the faulty instance in the file; each case is rendered for
schemas/kinds.exp into an otherwise conforming file, read by the real STEPfile (library) and by the repository's
p21read built against the same library; severity, exit status and the written-back neighbours are judged by TLC.
"""
import concurrent.futures as cf
import json
import os
import shutil
import subprocess

from vf import kinds, sess, tlc
from vf.common import InfraError, mkdir


def run(ctx):
    cov = {}
    drv = kinds.driver()
    tool = kinds.p21read_tool()
    wd = os.path.join(ctx.work, "s")
    shutil.rmtree(wd, ignore_errors=True)
    mkdir(wd)
    cases = []
    g = tlc.run_tlc("P21Read_GenFault", None, workers=4, timeout=900, on_case=cases.append,
                    cfg_text="CONSTANTS Deep = %s\nINIT Init\nNEXT Next\nINVARIANT Emit\n" % ("FALSE" if ctx.quick else "TRUE"))
    if g.rc != 0 or g.errors:
        raise InfraError("P21Read_GenFault failed: %s" % g.tail[-10:])
    cov["states"], cov["transitions"] = g.distinct, g.generated
    scripts, meta = [], {}
    for i, c in enumerate(cases):
        text, fid, intact, itxt = kinds.fault_case(c)
        tag = str(i)
        f = os.path.join(wd, "c%s.p21" % tag)
        open(f, "w").write(text)
        out = os.path.join(wd, "o%s.p21" % tag)
        scripts.append((tag, ["new 0", "read " + f, "states", "writenv " + out]))
        meta[tag] = (c, f, out, intact, itxt, text)
    res = {}
    B = 100
    with cf.ThreadPoolExecutor(max_workers=8) as ex:
        for r in ex.map(lambda k: sess.run_scripts(drv, scripts[k:k + B], mkdir(os.path.join(wd, "b%d" % k)), timeout=300),
                        range(0, len(scripts), B)):
            res.update(r)

    def tool_exit(tag):
        c, f, out, intact, itxt, text = meta[tag]
        try:
            p = subprocess.run([tool, f, os.path.join(wd, "t%s.out" % tag)], stdout=subprocess.DEVNULL,
                               stderr=subprocess.DEVNULL, timeout=60, cwd=wd)
            return tag, p.returncode
        except subprocess.TimeoutExpired:
            return tag, 124
    with cf.ThreadPoolExecutor(max_workers=12) as ex:
        texit = dict(ex.map(tool_exit, list(meta)))
    lines = []
    for tag, (c, f, out, intact, itxt, text) in meta.items():
        r = res.get(tag, [])
        rd = r[1] if len(r) > 1 else {}
        ev = {"e": "Fault", "class": c["class"], "kind": c["kind"], "pos": c["pos"], "lit": c["lit"],
              "place": c["place"], "tag": tag, "toolexit": texit[tag]}
        if rd.get("cmd") != "read":
            ev.update({"sev": 9, "exit": 0, "confined": False, "why": "library reader crashed: %s" % json.dumps(rd)[:200]})
        else:
            ev["sev"] = rd["esev"]
            ev["exit"] = 1 if rd["esev"] <= 1 else 0
            if len(r) < 4 or r[3].get("cmd") != "writenv":
                ev["confined"], ev["why"] = False, "crash while writing"
            else:
                ev["confined"], ev["why"] = kinds.intact_ok(out, intact)
        lines.append(json.dumps(ev))
    trace = os.path.join(wd, "trace.ndjson")
    open(trace, "w").write("\n".join(lines) + "\n")
    got = []
    r = tlc.run_tlc("P21Read_Trace", "P21Read_Trace.cfg", workers=1, timeout=900, env={"TRACE": trace}, on_case=got.append)
    if r.rc != 0 or r.post_violated or r.errors:
        raise InfraError("P21Read_Trace did not consume the record: rc=%s %s" % (r.rc, r.tail[-12:]))
    for rep in got:
        ev = rep["ev"]
        c, f, out, intact, itxt, text = meta[ev["tag"]]
        key = "%s|%s|%s|%s|pos%s|%s" % (rep["what"], ev["class"], ev["kind"], ev["lit"], ev["pos"], ev["place"])
        ctx.violation(key, "%s: #%s=%s (%s) -> severity %s, tool exit %s%s" % (
            rep["what"], kinds.FID, itxt, ev["place"], ev["sev"], ev["toolexit"],
            "; " + ev.get("why", "") if rep["what"] == "confinement" else ""),
            {"case": c, "file": text, "event": ev})
    shutil.rmtree(wd, ignore_errors=True)
    cov.update({"cases": len(cases), "disagreeing_events": len(got),
                "samples": [json.loads(lines[0]), {"file": meta["0"][5]}],
                "evaluations": len(lines), "distinct_nontrivial": len(lines),
                "rule": "fault class (15) x attribute kind x parameter position x place of the faulty instance "
                        "(first/middle/last); one violation per otherwise conforming 6-instance file; all distinct"})
    return {"level": "fault_enumeration", "coverage": cov, "assumptions": [
        "ambiguous literal/kind pairs (integer literal for REAL, untyped literal for a SELECT over defined types) are "
        "not counted as violations",
        "damaged region: the faulty instance; for an unterminated instance also the following one; for an "
        "unterminated string the rest of the file"]}

"""C03 - the reader never reports a schema-violating exchange file as clean.

spec/P21Read.tla lists the fifteen violation classes of the statement, the literal classes that are clearly wrong
for each attribute kind, the damaged region of each class and the verdict Detected / Confined.  TLC enumerates
class x kind x parameter position x place of the faulty instance in the file; each case is rendered for
schemas/kinds.exp into an otherwise conforming file, read by the real STEPfile (library) and by the repository's
p21read built against the same library; severity, exit status and the written-back neighbours are judged by TLC.
"""
import concurrent.futures as cf
import json
import os
import shutil
import subprocess

from vf import kinds, sess, tlc
from vf.common import InfraError, mkdir


def family_events(ctx, wd):
    """C03 on generated schemas: spec/Population_GenFault.tla puts one violation of every class at the first and the
    last place it applies in a conforming population; the library reader and the reference tool (both built against
    the schema's generated library) read the file; every other instance must come back with its values."""
    from checks import c01
    from vf import build, express, p21
    from vf.common import REPO, sha
    cases = []
    g = tlc.run_tlc("Population_GenFault", None, workers=4, timeout=900, on_case=cases.append,
                    cfg_text="CONSTANTS Deep = %s Rounds = %d\nINIT Init\nNEXT Next\nINVARIANT Emit\n" % ("FALSE" if ctx.quick else "TRUE", 0 if ctx.quick else 2))
    if g.rc != 0 or g.errors:
        raise InfraError("Population_GenFault failed: %s" % g.tail[-10:])
    by = {}
    for c in cases:
        by.setdefault(json.dumps(c["choice"], sort_keys=True), []).append(c)
    keys = sorted(by)
    if ctx.quick:
        strata = {}
        for k in keys:
            ch = json.loads(k)
            strata.setdefault((ch["inh"], ch["ts"]["k"], ch["ts"].get("of", "")), []).append(k)
        keys = sorted(v[len(v) // 2] for v in strata.values())

    def inst_text(i):
        return "#%d=%s(%s);" % (i["id"], i["ent"].upper(), ",".join(c01.aval(p) for p in i["params"]))

    def refs_of(v, acc):
        if v["k"] == "ref":
            acc.add(v["id"])
        elif v["k"] == "typed":
            refs_of(v["v"], acc)
        elif v["k"] == "list":
            for x in v["items"]:
                refs_of(x, acc)
        return acc

    def one(k):
        cs = by[k]
        txt = express.render(cs[0]["schema"])
        tag0 = "c02_" + sha(txt)[:10]
        try:
            lib = build.schema_lib(tag0, txt)
            drv = build.link_driver("session_" + tag0, [c01.DRV], schema=lib)
            tool = build.link_driver("p21read_" + tag0, [os.path.join(REPO, "src", "test", "p21read", "p21read.cc"),
                                                       os.path.join(REPO, "src", "test", "p21read", "sc_benchmark.cc")], schema=lib,
                                     extra_flags=["-I" + os.path.join(REPO, "src", "test", "p21read")])
        except build.BuildFailure as ex:
            return k, None, str(ex)[-400:]
        bwd = mkdir(os.path.join(wd, "fam_" + sha(k)[:8]))
        scripts, metas = [], []
        head = "ISO-10303-21;\n" + p21.HEADER % cs[0]["schema"]["name"].upper() + "DATA;\n"
        for c in cs:
            base = {i["id"]: inst_text(i) for i in c["pop"]}
            for fi, f in enumerate(sorted(c["faults"], key=lambda f: (f["class"], f["i"], f["j"]))):
                lines = []
                for q, inst in enumerate(c["pop"]):
                    t = inst_text(f["inst"]) if q + 1 == f["i"] else inst_text(inst)
                    if q + 1 == f["i"] and f["class"] == "unterminated_inst":
                        t = t[:-1]
                    if q + 1 == f["i"] and f["class"] == "unterminated_str":
                        sv = c01.aval(inst["params"][f["j"] - 1])
                        t = t.replace(sv, sv[:-1], 1) if sv.endswith("'") and len(sv) > 1 else t
                    lines.append(t)
                text = head + "\n".join(lines) + "\nENDSEC;\nEND-ISO-10303-21;\n"
                fid = c["pop"][f["i"] - 1]["id"]
                # instances that must come back intact: all but the faulty one, those that refer to it, and the rest of
                # the damaged region (an unterminated instance also damages its successor, an unterminated string
                # everything after it); a duplicate id leaves two instances with that id in doubt
                damaged = {fid}
                if f["class"] == "unterminated_inst" and f["i"] < len(c["pop"]):
                    damaged.add(c["pop"][f["i"]]["id"])
                if f["class"] == "unterminated_str":
                    damaged |= {x["id"] for x in c["pop"][f["i"] - 1:]}
                if f["class"] == "dup_id":
                    damaged.add(c["pop"][0]["id"])
                for inst in c["pop"]:
                    rs = set()
                    for pv in inst["params"]:
                        refs_of(pv, rs)
                    if rs & damaged:
                        damaged.add(inst["id"])
                for _ in range(3):      # referrers of referrers
                    for inst in c["pop"]:
                        rs = set()
                        for pv in inst["params"]:
                            refs_of(pv, rs)
                        if rs & damaged:
                            damaged.add(inst["id"])
                intact = {i: t for i, t in base.items() if i not in damaged}
                t2 = "X%s_%d_%d" % (sha(k)[:8], c["n"], fi)
                fp = os.path.join(bwd, t2 + ".p21")
                open(fp, "w").write(text)
                op = os.path.join(bwd, t2 + "_o.p21")
                scripts.append((t2, ["new 0", "read " + fp, "states", "writenv " + op]))
                metas.append((t2, f, fp, op, intact, text, k))
        res = sess.run_scripts(drv, scripts, bwd, timeout=600)
        evs = []
        for t2, f, fp, op, intact, text, kk in metas:
            try:
                pr = subprocess.run([tool, fp, os.path.join(bwd, t2 + ".tool")], stdout=subprocess.DEVNULL, stderr=subprocess.DEVNULL, timeout=60, cwd=bwd)
                te = pr.returncode
            except subprocess.TimeoutExpired:
                te = 124
            r = res.get(t2, [])
            rd = r[1] if len(r) > 1 else {}
            ev = {"e": "Fault", "class": f["class"], "kind": "generated", "pos": f["j"], "lit": "", "place": "inst%d" % f["i"], "tag": t2, "toolexit": te}
            if rd.get("cmd") != "read":
                ev.update({"sev": 9, "exit": 0, "confined": False, "why": "library reader crashed: %s" % json.dumps(rd)[:200]})
            else:
                ev["sev"] = rd["esev"]
                ev["exit"] = 1 if rd["esev"] <= 1 else 0
                ok, why = True, ""
                try:
                    got = {}
                    otext = open(op, errors="replace").read()
                    try:
                        data = p21.parse(otext)["data"]
                    except p21.P21Error:
                        import re
                        data = []
                        for m in re.finditer(r"(?m)^#(\d+)=(.*?);$", otext, flags=re.S):
                            try:
                                data.append(p21.Parser("#%s=%s;" % (m.group(1), m.group(2))).instance(False))
                            except p21.P21Error:
                                pass
                    for x in data:
                        got.setdefault(x["id"], []).append(x)
                    for i, t in intact.items():
                        want = p21.Parser(t).instance(False)
                        g1 = got.get(i, [])
                        if len(g1) != 1 or [p[0] for p in g1[0]["parts"]] != [p[0] for p in want["parts"]] or \
                                not all(len(a[1]) == len(b[1]) and all(c01.same_value(u, v) for u, v in zip(a[1], b[1]))
                                        for a, b in zip(want["parts"], g1[0]["parts"])):
                            ok, why = False, "#%d is %s, file has %s" % (i, [p21.render_instance(z) for z in g1], t)
                            break
                except OSError as ex:
                    ok, why = False, "no output: %s" % ex
                ev["confined"], ev["why"] = ok, why
            evs.append((json.dumps(ev), (f, text, kk)))
        shutil.rmtree(bwd, ignore_errors=True)
        return k, evs, ""
    out = []
    with cf.ThreadPoolExecutor(max_workers=3) as ex:
        for k, evs, err in ex.map(one, keys):
            if evs is None:
                ctx.violation("family-build|" + k, "generated library of a family schema does not build: " + err[-200:], {"choice": k})
                continue
            out.extend(evs)
    return out, len(keys)


def run(ctx):
    cov = {}
    drv = kinds.driver()
    tool = kinds.p21read_tool()
    wd = os.path.join(ctx.work, "s")
    shutil.rmtree(wd, ignore_errors=True)
    mkdir(wd)
    cases = []
    g = tlc.run_tlc("P21Read_GenFault", None, workers=4, timeout=900, on_case=cases.append,
                    cfg_text="CONSTANTS Deep = %s\nINIT Init\nNEXT Next\nINVARIANT Emit\n" % ("FALSE" if ctx.quick else "TRUE"))
    if g.rc != 0 or g.errors:
        raise InfraError("P21Read_GenFault failed: %s" % g.tail[-10:])
    cov["states"], cov["transitions"] = g.distinct, g.generated
    scripts, meta = [], {}
    for i, c in enumerate(cases):
        text, fid, intact, itxt = kinds.fault_case(c)
        tag = str(i)
        f = os.path.join(wd, "c%s.p21" % tag)
        open(f, "w").write(text)
        out = os.path.join(wd, "o%s.p21" % tag)
        scripts.append((tag, ["new 0", "read " + f, "states", "writenv " + out]))
        meta[tag] = (c, f, out, intact, itxt, text)
    res = {}
    B = 100
    with cf.ThreadPoolExecutor(max_workers=8) as ex:
        for r in ex.map(lambda k: sess.run_scripts(drv, scripts[k:k + B], mkdir(os.path.join(wd, "b%d" % k)), timeout=300),
                        range(0, len(scripts), B)):
            res.update(r)

    def tool_exit(tag):
        c, f, out, intact, itxt, text = meta[tag]
        try:
            p = subprocess.run([tool, f, os.path.join(wd, "t%s.out" % tag)], stdout=subprocess.DEVNULL,
                               stderr=subprocess.DEVNULL, timeout=60, cwd=wd)
            return tag, p.returncode
        except subprocess.TimeoutExpired:
            return tag, 124
    with cf.ThreadPoolExecutor(max_workers=12) as ex:
        texit = dict(ex.map(tool_exit, list(meta)))
    lines = []
    for tag, (c, f, out, intact, itxt, text) in meta.items():
        r = res.get(tag, [])
        rd = r[1] if len(r) > 1 else {}
        ev = {"e": "Fault", "class": c["class"], "kind": c["kind"], "pos": c["pos"], "lit": c["lit"],
              "place": c["place"], "tag": tag, "toolexit": texit[tag]}
        if rd.get("cmd") != "read":
            ev.update({"sev": 9, "exit": 0, "confined": False, "why": "library reader crashed: %s" % json.dumps(rd)[:200]})
        else:
            ev["sev"] = rd["esev"]
            ev["exit"] = 1 if rd["esev"] <= 1 else 0
            if len(r) < 4 or r[3].get("cmd") != "writenv":
                ev["confined"], ev["why"] = False, "crash while writing"
            else:
                ev["confined"], ev["why"] = kinds.intact_ok(out, intact)
        lines.append(json.dumps(ev))
    fam, nfam = family_events(ctx, wd)
    fmeta = {}
    for ln, m in fam:
        fmeta[json.loads(ln)["tag"]] = m
        lines.append(ln)
    trace = os.path.join(wd, "trace.ndjson")
    open(trace, "w").write("\n".join(lines) + "\n")
    got = []
    r = tlc.run_tlc("P21Read_Trace", "P21Read_Trace.cfg", workers=1, timeout=900, env={"TRACE": trace}, on_case=got.append)
    if r.rc != 0 or r.post_violated or r.errors:
        raise InfraError("P21Read_Trace did not consume the record: rc=%s %s" % (r.rc, r.tail[-12:]))
    for rep in got:
        ev = rep["ev"]
        if ev["tag"] in fmeta:
            f, text, kk = fmeta[ev["tag"]]
            ctx.violation("family|%s|%s|%s|i%dj%d" % (rep["what"], ev["class"], kk, f["i"], f["j"]),
                          "generated schema: %s for %s at instance %d parameter %d -> severity %s, tool exit %s%s" % (
                              rep["what"], ev["class"], f["i"], f["j"], ev["sev"], ev["toolexit"], "; " + ev.get("why", "") if rep["what"] == "confinement" else ""),
                          {"schema": kk, "fault": f, "file": text, "event": ev})
            continue
        c, f, out, intact, itxt, text = meta[ev["tag"]]
        key = "%s|%s|%s|%s|pos%s|%s" % (rep["what"], ev["class"], ev["kind"], ev["lit"], ev["pos"], ev["place"])
        ctx.violation(key, "%s: #%s=%s (%s) -> severity %s, tool exit %s%s" % (
            rep["what"], kinds.FID, itxt, ev["place"], ev["sev"], ev["toolexit"],
            "; " + ev.get("why", "") if rep["what"] == "confinement" else ""),
            {"case": c, "file": text, "event": ev})
    shutil.rmtree(wd, ignore_errors=True)
    cov.update({"cases": len(cases), "disagreeing_events": len(got), "generated_schema_family": {"schemas": nfam, "fault_files": len(fam)},
                "samples": [json.loads(lines[0]), {"file": meta["0"][5]}],
                "evaluations": len(lines), "distinct_nontrivial": len(lines),
                "rule": "fault class (15) x attribute kind x parameter position x place of the faulty instance "
                        "(first/middle/last); one violation per otherwise conforming 6-instance file; all distinct"})
    return {"level": "fault_enumeration", "coverage": cov, "assumptions": [
        "ambiguous literal/kind pairs (integer literal for REAL, untyped literal for a SELECT over defined types) are "
        "not counted as violations",
        "damaged region: the faulty instance; for an unterminated instance also the following one; for an "
        "unterminated string the rest of the file"]}

"""C01 - exchange files survive read-then-write with every value intact.

spec/P21Value.tla holds, per attribute kind, the pool of literal forms the Part 21 grammar allows, the entity shapes
of schemas/rt.exp (simple, defined, enumeration, select, the four aggregate kinds incl. nested / OPTIONAL elements,
derived and redeclared attributes, multiple inheritance, complex instances) and the verdict RoundTripOK.  TLC
enumerates parameter lists that walk every pool; each is rendered in several token spellings (compact, spaced,
comments between tokens, line breaks, forward references), read and written by the real STEPfile, read and written
again; input and output are parsed by the harness' own Part 21 parser and compared value by value (integers and
enumeration items exactly, strings and binaries byte for byte, reals to 15 significant digits, aggregates element
by element, typed selects with their keyword, $ and * preserved); TLC judges every record.
"""
import concurrent.futures as cf
import json
import os
import re
import shutil

from vf import build, p21, seps, sess, tlc
from vf.common import VERIF, InfraError, mkdir

SCHEMA = os.path.join(VERIF, "schemas", "rt.exp")
DRV = os.path.join(VERIF, "harness", "cpp", "session_drv.cc")
VARIANTS = ["compact", "spaced", "comments", "lines", "forward", "sepmix", "blankmix"]


def header_text(h):
    if not h:
        return p21.HEADER % "RT"
    return ("HEADER;\nFILE_DESCRIPTION((%s),%s);\nFILE_NAME(%s,'2020-01-01T00:00:00',(%s),(%s),%s,%s,%s);\nFILE_SCHEMA(('RT'));\nENDSEC;\n"
            % (",".join(h["desc"]), h["level"], h["name"], ",".join(h["authors"]), ",".join(h["orgs"]), h["pre"], h["sys"], h["auth"]))


def same_header(a, b):
    """header records equal apart from FILE_NAME's time stamp (second parameter)"""
    if [k for k, _ in a] != [k for k, _ in b]:
        return False
    for (k, pa), (_, pb) in zip(a, b):
        if len(pa) != len(pb):
            return False
        for i, (x, y) in enumerate(zip(pa, pb)):
            if k == "FILE_NAME" and i == 1:
                continue
            if not same_value(x, y):
                return False
    return True


def render(inst, variant, salt=0, header=None):
    if variant in ("sepmix", "blankmix"):
        # any separator of spec/P21Sep.tla between any two tokens of the data section
        sp = seps.Spacer("comments" if variant == "sepmix" else "plain", salt)
        head, data = render(inst, "compact", 0, header).split("DATA;\n")
        body, tail = data.split("ENDSEC;")
        out = []
        for _, t in p21.tokenize(body):
            out.append(t)
            out.append("\n" if t == ";" else sp())
        return head + "DATA;\n" + "".join(out) + "ENDSEC;" + tail
    if variant == "spaced":
        sep, lp, rp = " , ", " ( ", " ) "
    elif variant == "comments":
        sep, lp, rp = " /* a */ , /* b */ ", "( /* c */ ", " /* d */ )"
    elif variant == "lines":
        sep, lp, rp = ",\n   ", "(\n   ", "\n)"
    else:
        sep, lp, rp = ",", "(", ")"
    parts = ["%s%s%s%s" % (kw, lp, sep.join(vals), rp) for kw, vals in zip(inst["kw"], inst["vals"])]
    body = parts[0] if len(parts) == 1 else "(" + (" " if variant != "compact" else "").join(parts) + ")"
    eq = " = " if variant in ("spaced", "comments") else "="
    lines = ["#1%sTGT(1);" % eq, "#2%s%s;" % (eq, body)]
    if variant == "forward":
        lines.reverse()
    return "ISO-10303-21;\n" + header_text(header) + "DATA;\n" + "\n".join(lines) + "\nENDSEC;\nEND-ISO-10303-21;\n"


def same_value(a, b):
    if a[0] != b[0]:
        # a REAL may be written for a NUMBER/REAL given with an integer-looking token and vice versa: compare numerically
        if {a[0], b[0]} == {"int", "real"}:
            try:
                return float(a[1]) == float(b[1])
            except ValueError:
                return False
        return False
    t = a[0]
    if t in ("null", "derived"):
        return True
    if t == "int":
        return int(a[1]) == int(b[1])
    if t == "real":
        x, y = float(a[1]), float(b[1])
        return x == y or abs(x - y) <= 5e-15 * max(abs(x), abs(y))
    if t in ("str", "enum", "ref"):
        return a[1] == b[1]
    if t == "bin":
        return a[1].upper() == b[1].upper()
    if t == "typed":
        return a[1] == b[1] and same_value(a[2], b[2])
    if t == "list":
        return len(a[1]) == len(b[1]) and all(same_value(x, y) for x, y in zip(a[1], b[1]))
    return False


def strip_ts(text):
    return re.sub(r"FILE_NAME\s*\(.*?\);", "FILE_NAME();", text, flags=re.S)


def aval(v):
    """abstract value of spec/Population.tla -> Part 21 text"""
    k = v["k"]
    if k == "tok":
        return v["t"]
    if k == "enum":
        return "." + v["item"].upper() + "."
    if k == "ref":
        return "#%d" % v["id"]
    if k == "typed":
        return "%s(%s)" % (v["ty"].upper(), aval(v["v"]))
    if k == "list":
        return "(" + ",".join(aval(x) for x in v["items"]) + ")"
    if k == "null":
        return "$"
    if k == "star":
        return "*"
    raise ValueError(v)


def render_pop(schema_name, pop, variant, salt=0, header=None, reverse=False):
    lines = ["#%d=%s(%s);" % (i["id"], i["ent"].upper(), ",".join(aval(p) for p in i["params"])) for i in pop]
    if variant == "forward" or reverse:
        lines.reverse()
    body = "\n".join(lines) + "\n"
    if variant in ("sepmix", "blankmix", "spaced", "comments", "lines"):
        kind = {"sepmix": "comments", "comments": "comments"}.get(variant, "plain")
        sp = seps.Spacer(kind, salt)
        out = []
        for _, t in p21.tokenize(body):
            out.append(t)
            out.append("\n" if t == ";" else sp() if variant in ("sepmix", "blankmix") or t in (",", "(", "=") else "")
        body = "".join(out)
    return "ISO-10303-21;\n" + header_text(header).replace("'RT'", "'%s'" % schema_name.upper()) + "DATA;\n" + body + "ENDSEC;\nEND-ISO-10303-21;\n"


def family_phase(ctx, lines, meta, files):
    """populations of spec/Population.tla for the schemas of spec/Schema.tla: generated library per schema, same
    round-trip record as the model-schema phase (every instance compared)"""
    from vf import express
    from vf.common import sha
    cases = []
    g = tlc.run_tlc("Population_Gen", None, workers=4, timeout=900, on_case=cases.append,
                    cfg_text="CONSTANTS Deep = %s Rounds = %d\nINIT Init\nNEXT Next\nINVARIANT Emit\n" % ("FALSE" if ctx.quick else "TRUE", 1 if ctx.quick else 5))
    if g.rc != 0 or g.errors:
        raise InfraError("Population_Gen failed: %s" % g.tail[-10:])
    cases = [c for c in cases if c["conforming"]]
    cases.sort(key=lambda c: (json.dumps(c["choice"], sort_keys=True), c["n"]))
    byschema = {}
    for c in cases:
        byschema.setdefault(json.dumps(c["choice"], sort_keys=True), []).append(c)
    keys = sorted(byschema)
    if ctx.quick:
        # one schema of every inheritance shape x type shape (the other choices rotate)
        strata = {}
        for k in keys:
            ch = json.loads(k)
            strata.setdefault((ch["inh"], ch["ts"]["k"], ch["ts"].get("of", "")), []).append(k)
        keys = sorted(v[len(v) // 2] for v in strata.values())
    wd = os.path.join(ctx.work, "f")
    shutil.rmtree(wd, ignore_errors=True)
    mkdir(wd)

    def one(k):
        cs = byschema[k]
        txt = express.render(cs[0]["schema"])
        tag = "c02_" + sha(txt)[:10]
        try:
            lib = build.schema_lib(tag, txt)
            drv = build.link_driver("session_" + tag, [DRV], schema=lib)
        except build.BuildFailure as ex:
            return k, None, str(ex)[-600:]
        scripts = []
        for c in cs:
            for vi, v in enumerate(VARIANTS if not ctx.quick else [VARIANTS[(c["n"] + len(k)) % len(VARIANTS)], "sepmix"]):
                tag2 = "F%s_%d_%s" % (sha(k)[:8], c["n"], v)
                f = os.path.join(wd, tag2 + ".p21")
                text = render_pop(cs[0]["schema"]["name"], c["pop"], v, c["n"] * 7 + vi, None)
                open(f, "w", newline="").write(text)
                o1, o2 = os.path.join(wd, tag2 + "_o1.p21"), os.path.join(wd, tag2 + "_o2.p21")
                scripts.append((tag2, ["new 0", "read " + f, "write " + o1, "new 0", "read " + o1, "write " + o2]))
                meta[tag2] = ({"inst": {"kw": ["(schema %s)" % k[:60]]}, "dev": "", "family": True}, v, f, o1, o2)
                files[tag2] = text
        return k, sess.run_scripts(drv, scripts, mkdir(os.path.join(wd, "b" + sha(k)[:8])), timeout=600), ""
    n = 0
    with cf.ThreadPoolExecutor(max_workers=3) as ex:
        for k, res, err in ex.map(one, keys):
            if res is None:
                ctx.violation("family-build|" + k, "generated library of a family schema does not build: " + err[-200:], {"choice": k, "error": err})
                continue
            for tag2, r in res.items():
                n += 1
                c, v, f, o1, o2 = meta[tag2]
                ev = {"e": "RoundTrip", "tag": tag2, "sev": -9, "sameIds": False, "sameKeywords": False, "valuesSame": [False], "sameHeader": False,
                      "secondIdentical": False, "why": ""}
                rd = r[1] if len(r) > 1 else {}
                if rd.get("cmd") == "read":
                    ev["sev"] = rd["esev"]
                    try:
                        src = p21.parse(files[tag2])
                        out = p21.parse(open(o1, errors="replace").read())
                        ev["sameIds"] = [x["id"] for x in src["data"]] == [x["id"] for x in out["data"]]
                        ev["sameHeader"] = same_header(src["header"], out["header"])
                        om = {x["id"]: x for x in out["data"]}
                        vs, kwok, why = [], True, []
                        for si in src["data"]:
                            oi = om.get(si["id"])
                            if not oi:
                                continue
                            kwok = kwok and [p[0] for p in si["parts"]] == [p[0] for p in oi["parts"]]
                            for (kw, ps), (_, ops) in zip(si["parts"], oi["parts"]):
                                for j, a in enumerate(ps):
                                    ok = j < len(ops) and same_value(a, ops[j])
                                    vs.append(ok)
                                    if not ok:
                                        why.append("#%d %s[%d]: %s -> %s" % (si["id"], kw, j, p21.render_value(a), p21.render_value(ops[j]) if j < len(ops) else "missing"))
                                if len(ops) != len(ps):
                                    vs.append(False)
                        ev["sameKeywords"] = kwok
                        ev["valuesSame"] = vs or [True]
                        ev["why"] = "; ".join(why)[:300]
                        t1 = strip_ts(open(o1, errors="replace").read())
                        t2 = strip_ts(open(o2, errors="replace").read()) if os.path.exists(o2) else None
                        ev["secondIdentical"] = t1 == t2
                    except (p21.P21Error, OSError, IndexError) as ex2:
                        ev["why"] = "output not a valid Part 21 file: %s" % str(ex2)[:160]
                else:
                    ev["why"] = "reader died: %s" % json.dumps(rd)[:200]
                lines.append(json.dumps(ev))
    shutil.rmtree(wd, ignore_errors=True)
    return dict(family_schemas=len(keys), family_files=n, family_states=g.distinct)


def run(ctx):
    s = build.schema_lib("rt", open(SCHEMA).read())
    drv = build.link_driver("session_rt", [DRV], schema=s)
    cases = []
    g = tlc.run_tlc("P21Value_Gen", None, workers=4, timeout=900, on_case=cases.append,
                    cfg_text="CONSTANTS Extra = %d\nINIT Init\nNEXT Next\nINVARIANT Emit\n" % (0 if ctx.quick else 12))
    if g.rc != 0 or g.errors:
        raise InfraError("P21Value_Gen failed: %s" % g.tail[-10:])
    cases.sort(key=lambda c: (c["shape"], c["n"]))
    wd = os.path.join(ctx.work, "s")
    shutil.rmtree(wd, ignore_errors=True)
    mkdir(wd)
    scripts, meta, files = [], {}, {}
    k = 0
    for c in cases:
        variants = VARIANTS if not ctx.quick else [VARIANTS[(c["n"] + c["shape"] + ctx.seed) % len(VARIANTS)], "compact"]
        for v in dict.fromkeys(variants):
            tag = "%d" % k
            k += 1
            f = os.path.join(wd, "i%s.p21" % tag)
            open(f, "w", newline="").write(render(c["inst"], v, k - 1, c.get("header")))
            o1, o2 = os.path.join(wd, "o%s_1.p21" % tag), os.path.join(wd, "o%s_2.p21" % tag)
            scripts.append((tag, ["new 0", "read " + f, "write " + o1, "new 0", "read " + o1, "write " + o2]))
            meta[tag] = (c, v, f, o1, o2)
            files[tag] = render(c["inst"], v, k - 1, c.get("header"))
    res = {}
    B = 60
    with cf.ThreadPoolExecutor(max_workers=10) as ex:
        for r in ex.map(lambda i: sess.run_scripts(drv, scripts[i:i + B], mkdir(os.path.join(wd, "b%d" % i)), timeout=300),
                        range(0, len(scripts), B)):
            res.update(r)
    lines, tags = [], []
    for tag, (c, v, f, o1, o2) in meta.items():
        r = res.get(tag, [])
        ev = {"e": "RoundTrip", "tag": tag, "sev": -9, "sameIds": False, "sameKeywords": False, "valuesSame": [False], "sameHeader": False, "secondIdentical": False, "why": ""}
        rd = r[1] if len(r) > 1 else {}
        if rd.get("cmd") == "read":
            ev["sev"] = rd["esev"]
            try:
                src = p21.parse(open(f).read())
                out = p21.parse(open(o1, errors="replace").read())
                ev["sameIds"] = [x["id"] for x in src["data"]] == [x["id"] for x in out["data"]]
                ev["sameHeader"] = same_header(src["header"], out["header"])
                if not ev["sameHeader"]:
                    ev["why"] = "header %s -> %s" % (src["header"], out["header"])
                si = [x for x in src["data"] if x["id"] == 2][0]
                oi = [x for x in out["data"] if x["id"] == 2]
                if oi:
                    oi = oi[0]
                    sk = [p[0] for p in si["parts"]]
                    ok = [p[0] for p in oi["parts"]]
                    ev["sameKeywords"] = sorted(sk) == sorted(ok) and si["complex"] == oi["complex"]
                    vs = []
                    om = {p[0]: p[1] for p in oi["parts"]}
                    for kw, ps in si["parts"]:
                        ops = om.get(kw, [])
                        for j, a in enumerate(ps):
                            vs.append(j < len(ops) and same_value(a, ops[j]))
                        if len(ops) != len(ps):
                            vs.append(False)
                    ev["valuesSame"] = vs or [True]
                    ev["why"] = ev["why"] if all(vs) else "; ".join("%s -> %s" % (p21.render_value(a), p21.render_value(om.get(kw, [("null",)] * 99)[j]) if j < len(om.get(kw, [])) else "missing")
                                          for kw, ps in si["parts"] for j, a in enumerate(ps)
                                          if not (j < len(om.get(kw, [])) and same_value(a, om[kw][j])))[:300]
                t1, t2 = strip_ts(open(o1, errors="replace").read()), strip_ts(open(o2, errors="replace").read()) if os.path.exists(o2) else None
                ev["secondIdentical"] = t1 == t2
            except (p21.P21Error, OSError, IndexError) as ex:
                ev["why"] = "output not a valid Part 21 file: %s" % str(ex)[:160]
        else:
            ev["why"] = "reader died: %s" % json.dumps(rd)[:200]
        lines.append(json.dumps(ev))
        tags.append(tag)
    fam = family_phase(ctx, lines, meta, files)
    tp = os.path.join(wd, "trace.ndjson")
    open(tp, "w").write("\n".join(lines) + "\n")
    got = []
    r = tlc.run_tlc("P21Value_Trace", "P21Value_Trace.cfg", workers=1, timeout=900, env={"TRACE": tp}, on_case=got.append)
    if r.rc != 0 or r.post_violated or r.errors:
        raise InfraError("P21Value_Trace did not consume the record: rc=%s %s" % (r.rc, r.tail[-12:]))
    for rep in got:
        ev = rep["ev"]
        c, v, f, o1, o2 = meta[ev["tag"]]
        clause = "read-error" if ev["sev"] < 2 else "ids" if not ev["sameIds"] else "keywords" if not ev["sameKeywords"] else \
            "values" if not all(ev["valuesSame"]) else "header" if not ev["sameHeader"] else "second-round-trip"
        inst = c["inst"]["kw"][0] if c.get("family") else render(c["inst"], "compact").split("\n")[-4]
        key = "dev:" + c["dev"] if c.get("dev") else "%s|%s|%s|%s" % (clause, "+".join(c["inst"]["kw"]), v if clause in ("read-error",) else "-", ev["why"][:80])
        ctx.violation(key,
                      "%s (%s spelling): %s :: severity %s; %s" % (clause, v, inst[:160], ev["sev"], ev["why"][:200]),
                      {"instance": c["inst"], "variant": v, "file": files[ev["tag"]], "event": ev})
    shutil.rmtree(wd, ignore_errors=True)
    cov = {"states": g.distinct, "transitions": g.generated, "traces_validated_against_impl": len(lines), "exhaustive": False,
           "instances": len(cases), "files": len(lines), "disagreeing": len(got), "generated_schema_family": fam,
           "samples": [json.loads(lines[0]), {"file": render(cases[0]["inst"], "comments")}],
           "evaluations": len(lines), "distinct_nontrivial": len(lines),
           "rule": "entity shapes x rounds walking every literal-form pool x token spellings; each file distinct"}
    return {"level": "model_checking", "coverage": cov, "assumptions": [
        "one model schema (schemas/rt.exp); the byte-level fidelity of individual literals is C09's exhaustive enumeration",
        "the header is compared record by record apart from FILE_NAME.time_stamp"]}

"""C16 - working-session files round-trip populations with per-instance state.

D: spec/SessionWS_MC.tla explores Session's ChangeState / WriteWorking / ReadWorking over all state assignments
   of small populations and checks the round-trip invariant on the design.
G+V: spec/Session_GenWS.tla enumerates (file, state assignment) scenarios (complete and genuinely incomplete
   instances, every state letter, deleted instances unreferenced); each is run on real STEPfile sessions
   (read, ChangeState per instance, save as working file, load into a fresh session, save again, exchange round
   trip); every step is logged with the projected population and validated by TLC against Session.
"""
import concurrent.futures as cf
import json
import os
import re
import shutil

from vf import sess, tlc
from vf.common import InfraError, mkdir

FULL = {"C": "complete", "I": "incomplete", "N": "new", "D": "delete"}


def data_lines(path):
    try:
        t = open(path, errors="replace").read()
    except OSError:
        return None
    t = re.sub(r"FILE_NAME\s*\(.*?\);", "FILE_NAME();", t, flags=re.S)
    return t


def drop_deleted(text):
    # instances are written one per statement; a D instance ends at its terminating ';' + newline
    # (its comments, if any, are written between the state letter and the '#')
    return re.sub(r"(?m)^D\s*(?:/\*.*?\*/\s*)*#\d+=.*?;\n", "", text, flags=re.S)


def reuses(tag):
    """every second scenario reloads the working-session file into the session that wrote it (the reader replaces the
    population; the ids in the file are the ids of the session) instead of into a fresh one"""
    return sum(map(ord, tag)) % 2 == 1


def script(tag, sc, bwd, fpath, cycles):
    n = len(sc["file"])
    fresh = [] if reuses(tag) else ["new 0"]
    L = ["new 0", "read %s" % fpath, "states", "writenv %s/%s-o0.p21" % (bwd, tag)]
    for i in range(n):
        L += ["state %d %s" % (sc["file"][i]["id"], FULL[sc["states"][i]]), "states"]
    L += ["writenv %s/%s-x.p21" % (bwd, tag), "writews %s/%s-w1.ws" % (bwd, tag)]
    for c in range(cycles):
        L += fresh + ["readws %s/%s-w%d.ws" % (bwd, tag, c + 1), "states", "writenv %s/%s-p%d.p21" % (bwd, tag, c + 1),
              "writews %s/%s-w%d.ws" % (bwd, tag, c + 2)]
    L += ["new 0", "read %s/%s-x.p21" % (bwd, tag), "states", "writenv %s/%s-x2.p21" % (bwd, tag)]
    return L


def events(tag, sc, res, bwd, cycles, proj=None):
    proj = proj or sess.project
    ev = [json.dumps({"e": "Reset"})]
    it = iter(res)

    def nx(want):
        r = next(it, {"cmd": "missing"})
        if r.get("cmd") != want:
            raise StopIteration(json.dumps({"e": "Crash", "expected": want, "got": r}))
        return r
    try:
        nx("new"); nx("read")
        st = nx("states"); nx("writenv")
        base = proj("%s/%s-o0.p21" % (bwd, tag), st["list"])
        ev.append(json.dumps({"e": "Given", "pop": base}))
        cur = base
        for i in range(len(sc["file"])):
            nx("state")
            st = nx("states")
            cur = [dict(x) for x in cur]
            for k, x in enumerate(cur):
                x["st"] = sess.LETTER.get(st["list"][k][1], "?") if k < len(st["list"]) and st["list"][k][0] == x["id"] else "?"
            ev.append(json.dumps({"e": "State", "i": i + 1, "s": sc["states"][i], "pop": cur}))
        nx("writenv"); nx("writews")
        for c in range(cycles):
            if not reuses(tag):
                nx("new")
            nx("readws")
            st = nx("states"); nx("writenv"); nx("writews")
            wfile = proj("%s/%s-w%d.ws" % (bwd, tag, c + 1))
            pop = proj("%s/%s-p%d.p21" % (bwd, tag, c + 1), st["list"])
            ev.append(json.dumps({"e": "ReadWorking", "wfile": wfile, "pop": pop}))
            w1 = data_lines("%s/%s-w%d.ws" % (bwd, tag, c + 1))
            w2 = data_lines("%s/%s-w%d.ws" % (bwd, tag, c + 2))
            resave = w1 is not None and w2 is not None and drop_deleted(w1) == w2
            if c == 0:
                nxt_x = None
            ev.append(json.dumps({"e": "Resave%d" % c, "same": resave}) if False else "")
            ev.pop()
            if c == cycles - 1:
                nx("new"); nx("read")
                st3 = nx("states"); nx("writenv")
                xpop = proj("%s/%s-x2.p21" % (bwd, tag), st3["list"])
                ev.append(json.dumps({"e": "Compare", "xpop": xpop, "resave": resave}))
            elif not resave:
                ev.append(json.dumps({"e": "Compare", "xpop": [], "resave": False}))
    except StopIteration as s:
        ev.append(s.args[0] if s.args else json.dumps({"e": "Crash"}))
    return ev


def family_segments(ctx, wd, cycles):
    """C16 on generated schemas: the populations and state assignments of spec/Population.tla, same scenario and
    same trace specification, through the generic projection"""
    from checks import c01
    from vf import build, express
    from vf.common import sha
    cases = []
    g = tlc.run_tlc("Population_Gen", None, workers=4, timeout=900, on_case=cases.append,
                    cfg_text="CONSTANTS Deep = %s Rounds = %d\nINIT Init\nNEXT Next\nINVARIANT Emit\n" % ("FALSE" if ctx.quick else "TRUE", 3 if ctx.quick else 7))
    if g.rc != 0 or g.errors:
        raise InfraError("Population_Gen failed: %s" % g.tail[-10:])
    by = {}
    for c in cases:
        if c["conforming"]:
            by.setdefault(json.dumps(c["choice"], sort_keys=True), []).append(c)
    keys = sorted(by)
    if ctx.quick:
        strata = {}
        for k in keys:
            ch = json.loads(k)
            strata.setdefault((ch["inh"], ch["ts"]["k"], ch["ts"].get("of", "")), []).append(k)
        keys = sorted(v[len(v) // 2] for v in strata.values())

    def one(k):
        cs = sorted(by[k], key=lambda c: c["n"])
        txt = express.render(cs[0]["schema"])
        tag0 = "c02_" + sha(txt)[:10]
        try:
            lib = build.schema_lib(tag0, txt)
            drv = build.link_driver("session_" + tag0, [c01.DRV], schema=lib)
        except build.BuildFailure as ex:
            return k, None, str(ex)[-400:]
        bwd = mkdir(os.path.join(wd, "fam_" + sha(k)[:8]))
        scripts, metas = [], []
        for c in cs:
            tag = "G%s_%d" % (sha(k)[:8], c["n"])
            f = os.path.join(bwd, tag + "_in.p21")
            text = c01.render_pop(cs[0]["schema"]["name"], c["pop"], ("compact", "comments", "sepmix")[c["n"] % 3], c["n"])
            open(f, "w").write(text)
            sc = {"file": [{"id": i["id"]} for i in c["pop"]], "states": c["states"]}
            scripts.append((tag, script(tag, sc, bwd, f, cycles)))
            metas.append((tag, sc, text))
        res = sess.run_scripts(drv, scripts, bwd)
        segs = [(events(tag, sc, res.get(tag, []), bwd, cycles, sess.project_generic), {"schema": k, "states": sc["states"], "file": text})
                for tag, sc, text in metas]
        shutil.rmtree(bwd, ignore_errors=True)
        return k, segs, ""
    out = []
    with cf.ThreadPoolExecutor(max_workers=3) as ex:
        for k, segs, err in ex.map(one, keys):
            if segs is None:
                ctx.violation("family-build|" + k, "generated library of a family schema does not build: " + err[-200:], {"choice": k})
                continue
            out.extend(segs)
    return out, len(keys)


def run(ctx):
    q = ctx.quick
    cov = {}
    d = tlc.check_design("SessionWS_MC", "SessionWS_MC.cfg", workers=8, timeout=900)
    for v in d.violated:
        ctx.violation("design|" + v, "Session violates %s" % v, {"tlc": d.tail[-40:]})
    cov["states"], cov["transitions"] = d.distinct, d.generated
    cov["design"] = {"module": "SessionWS_MC", "checked": ["WSRoundTrip"]}
    drv = sess.driver()
    wd = os.path.join(ctx.work, "s")
    shutil.rmtree(wd, ignore_errors=True)
    mkdir(wd)
    scen = []
    g = tlc.run_tlc("Session_GenWS", None, workers=4, timeout=1800, on_case=scen.append,
                    cfg_text="CONSTANTS NFiles = %d\nINIT Init\nNEXT Next\nINVARIANT Emit\n" % (2 if q else 4))
    if g.rc != 0 or g.errors:
        raise InfraError("Session_GenWS failed: %s" % g.tail[-10:])
    cycles = 1 if q else 2
    fcache = {}
    for sc in scen:
        k = json.dumps(sc["file"])
        if k not in fcache:
            p = os.path.join(wd, "f%d.p21" % len(fcache))
            text = sess.file_text(sc["file"])
            if len(fcache) % 2 == 1:
                # comments in front of instances: the library keeps them with the instance and writes them back, in
                # exchange and working-session files alike (byte-for-byte re-save)
                n = [0]

                def com(m):
                    n[0] += 1
                    return "/* note %d ; ' */\n#" % n[0] if n[0] % 2 else "#"
                text = re.sub(r"(?m)^#", com, text)
            open(p, "w").write(text)
            fcache[k] = p

    def batch(bi, items):
        bwd = mkdir(os.path.join(wd, "b%d" % bi))
        scripts = [(tag, script(tag, sc, bwd, fcache[json.dumps(sc["file"])], cycles)) for tag, sc in items]
        res = sess.run_scripts(drv, scripts, bwd)
        segs = [events(tag, sc, res.get(tag, []), bwd, cycles) for tag, sc in items]
        shutil.rmtree(bwd, ignore_errors=True)
        return segs

    items = [(str(i), s) for i, s in enumerate(scen)]
    B = 60
    segs = []
    with cf.ThreadPoolExecutor(max_workers=12) as ex:
        for r in ex.map(lambda a: batch(*a), [(i, items[i:i + B]) for i in range(0, len(items), B)]):
            segs.extend(r)
    fam, nfam = family_segments(ctx, wd, cycles)
    nmodel = len(segs)
    segs = segs + [e for e, m in fam]
    acc, rej = tlc.validate_segments("Session_Trace", "Session_Trace.cfg", segs, os.path.join(ctx.work, "v"),
                                     parallel=8, max_events=6000)
    for r in rej:
        ev = json.loads(r["line"]) if r["line"] else {}
        if r["segment"] >= nmodel:
            m = fam[r["segment"] - nmodel][1]
            ctx.violation("family-ws|%s|%s|%s" % (ev.get("e"), m["schema"], "".join(m["states"])),
                          "generated schema %s, states %s: recorded %s is not a step of Session: %s" % (
                              m["schema"][:80], "".join(m["states"]), ev.get("e"), r["line"][:300]),
                          {"schema": m["schema"], "states": m["states"], "file": m["file"], "event": ev, "trace": segs[r["segment"]]})
            continue
        sc = scen[r["segment"]]
        ids = [x["id"] for x in sc["file"]]
        ctx.violation("ws|%s|file%s|%s" % (ev.get("e"), ids, "".join(sc["states"])),
                      "recorded %s is not a step of Session: %s" % (ev.get("e"), r["line"][:300]),
                      {"scenario": sc, "event": ev, "trace": segs[r["segment"]]})
    shutil.rmtree(wd, ignore_errors=True)
    cov.update({
        "traces_validated_against_impl": acc, "exhaustive": True, "scenarios": len(scen),
        "events": sum(len(s) for s in segs), "rejected": len(rej), "save_load_cycles": cycles,
        "generated_schema_family": {"schemas": nfam, "scenarios": len(fam)},
        "samples": [{"scenario": scen[7], "events": [json.loads(x) for x in segs[7]]}] if len(scen) > 7 else [],
        "evaluations": len(scen), "distinct_nontrivial": len(scen),
        "rule": "base file x every state assignment in {C,I,N,D}^n with deleted instances unreferenced; all "
                "distinct by construction"})
    return {"level": "model_checking", "coverage": cov, "assumptions": [
        "a deleted instance is not referenced by a surviving one (the statement does not define that case)",
        "'byte-for-byte apart from the time stamp' is compared after removing the FILE_NAME header record and the "
        "lines of deleted instances"]}

"""C19 - Python aggregate types enforce EXPRESS aggregate semantics.

D: TLC explores spec/PyAggr.tla: every declaration within the bounds, every operation sequence the three-valued
   oracle permits; invariants BoundOK, TypeOK, UniqOK, RangeOK.
G+V: spec/PyAggr_Gen.tla enumerates declarations x operation sequences; harness/py/pyaggr_drv.py executes each on
   the runtime's containers (imported from /repo's working tree) and records outcome + queries per operation;
   TLC validates the record against spec/PyAggr_Trace.tla, which follows the observed outcomes and evaluates the
   oracle and the query clauses at every event (monitor style: every disagreement is listed in one pass).
"""
import concurrent.futures as cf
import json
import os
import sys

from vf import tlc
from vf.common import REPO, VERIF, InfraError, log, mkdir
from vf import common

PYDIR = os.path.join(REPO, "src", "exp2python", "python")
DRV = os.path.join(VERIF, "harness", "py", "pyaggr_drv.py")


def gen_cfg(vals, maxlo, maxspan, maxlen, twin=1):
    """twin: how often the ill-typed value that compares equal to a well-typed one may occur in a scenario"""
    return ("CONSTANTS Vals = {%s} Bad = 99 MaxLo = %d MaxSpan = %d MaxLen = %d TwinMax = %d\nINIT Init\nNEXT Next\n"
            "CONSTRAINT Bound\nINVARIANT Emit\n" % (", ".join(map(str, vals)), maxlo, maxspan, maxlen, twin))


def cfgname(c):
    return "%s[%d:%s]%s%s" % (c["kind"], c["lo"], "?" if c["unb"] else c["hi"], " UNIQUE" if c["uniq"] else "",
                              " OPTIONAL" if c["opt"] else "")


def run(ctx):
    q = ctx.quick
    cov = {}
    d = tlc.check_design("PyAggr_MC", "PyAggr_MC.cfg", workers=8, timeout=900)
    for v in d.violated:
        ctx.violation("design|" + v, "PyAggr violates %s" % v, {"tlc": d.tail[-40:]})
    cov["states"], cov["transitions"] = d.distinct, d.generated
    cov["design"] = {"module": "PyAggr_MC", "constants": "lo 0..2, span 0..2 or unbounded, 3 values + 2 ill-typed (one comparing equal to a well-typed value)",
                     "invariants": ["BoundOK", "TypeOK", "UniqOK", "RangeOK"]}
    work = mkdir(os.path.join(ctx.work, "v"))
    for f in os.listdir(work):
        os.unlink(os.path.join(work, f))
    L = 3 if q else 4
    chunk, chunks = [], []
    counts = {"scen": 0, "events": 0}
    samples = []
    reports = []
    pool = cf.ThreadPoolExecutor(max_workers=10)
    futs = []

    def process(idx, scen):
        sp = os.path.join(work, "s%d.jsonl" % idx)
        tp = os.path.join(work, "t%d.ndjson" % idx)
        with open(sp, "w") as f:
            for s in scen:
                f.write(json.dumps(s) + "\n")
        p = common.run([sys.executable, DRV, PYDIR, sp, tp], timeout=600)
        if p.returncode != 0:
            raise InfraError("pyaggr driver failed: %s" % p.stderr[-2000:])
        nev = sum(1 for _ in open(tp))
        got = []
        r = tlc.run_tlc("PyAggr_Trace", "PyAggr_Trace.cfg", workers=1, timeout=900, env={"TRACE": tp},
                        on_case=got.append, xmx="3g")
        if r.rc != 0 or r.post_violated or r.errors:
            raise InfraError("trace validation did not consume the whole record %s: rc=%s %s" % (tp, r.rc, r.tail[-12:]))
        first = open(tp).readlines()[:5] if idx == 0 else None
        os.unlink(sp)
        os.unlink(tp)
        return nev, got, first

    def flush():
        if chunk:
            futs.append(pool.submit(process, len(futs), list(chunk)))
            del chunk[:]

    def on_case(c):
        counts["scen"] += 1
        chunk.append(c)
        if len(chunk) >= 4000:
            flush()

    # the twin value rides on the length-3 family (in both tiers); the longer thorough families keep the plain value pool
    g = tlc.run_tlc("PyAggr_Gen", None, cfg_text=gen_cfg([1, 2], 2, 1, 3, twin=1), workers=4, timeout=3000, on_case=on_case)
    if g.rc != 0 or g.errors:
        raise InfraError("PyAggr_Gen failed: %s %s" % (g.rc, g.tail[-10:]))
    if not q:
        g = tlc.run_tlc("PyAggr_Gen", None, cfg_text=gen_cfg([1, 2], 2, 1, L, twin=0), workers=4, timeout=3000, on_case=on_case)
        if g.rc != 0 or g.errors:
            raise InfraError("PyAggr_Gen failed: %s %s" % (g.rc, g.tail[-10:]))
        g = tlc.run_tlc("PyAggr_Gen", None, cfg_text=gen_cfg([1, 2, 3], 1, 2, 3, twin=0), workers=4, timeout=3000, on_case=on_case)
        if g.rc != 0 or g.errors:
            raise InfraError("PyAggr_Gen failed: %s %s" % (g.rc, g.tail[-10:]))
    # declarations on their own, legal or not
    decls = []
    gd = tlc.run_tlc("PyAggr_GenDecl", None, cfg_text="CONSTANTS Vals = {1, 2} Bad = 99\nINIT GInit\nNEXT GNext\nINVARIANT Emit\n", workers=2, timeout=600,
                     on_case=lambda c: decls.append(c))
    if gd.rc != 0 or gd.errors:
        raise InfraError("PyAggr_GenDecl failed: %s %s" % (gd.rc, gd.tail[-10:]))
    for dc in sorted(decls, key=lambda c: json.dumps(c, sort_keys=True)):
        on_case({"cfg": dc["cfg"], "decl": True, "ops": []})
    counts["decls"] = len(decls)
    flush()
    nrep = 0
    for f in futs:
        nev, got, first = f.result()
        counts["events"] += nev
        if first:
            samples.append({"recorded_events": [json.loads(x) for x in first]})
        for rep in got:
            nrep += 1
            ev, c = rep["ev"], rep["cfg"]
            what = "%s %s(i=%s,v=%s): oracle %s, runtime %s%s" % (
                cfgname(c), ev["e"], ev.get("i"), ev.get("v"), rep["must"] or rep["clause"],
                "accepted" if ev["acc"] else "rejected", " (%s)" % ev["exc"] if ev.get("exc") else "")
            if rep["dev"]:
                key = "dev:" + rep["dev"]
            else:
                key = "%s|%s|%s|%s" % (cfgname(c), rep["clause"], rep["must"], ev.get("exc", ""))
            ctx.violation(key, what, {"cfg": c, "event": ev, "clause": rep["clause"], "must": rep["must"]})
    pool.shutdown()
    cov.update({
        "traces_validated_against_impl": counts["scen"],
        "exhaustive": True,
        "events": counts["events"], "declarations_judged": counts.get("decls", 0),
        "disagreeing_events": nrep,
        "samples": samples[:2] or [{"note": "no scenario"}],
        "evaluations": counts["scen"],
        "distinct_nontrivial": counts["scen"],
        "rule": "every legal declaration (kind x lo 0..2 x hi lo..lo+1 or unbounded x UNIQUE x OPTIONAL) x every "
                "operation sequence of length %d (BAG/SET: %d) over the index window (one beyond each bound) and "
                "the value pool (2 well-typed + 1 ill-typed); the length-3 family (BAG/SET: 6) additionally with the ill-typed "
                "value that compares equal to a well-typed one, once per scenario; each scenario distinct by construction" % (L, L + 3),
    })
    return {"level": "model_checking", "coverage": cov, "assumptions": [
        "the runtime has no element removal, so that part of the quantifier is vacuous",
        "where the statement is silent or two readings disagree (LIST index base, re-assigning an index its own "
        "value under UNIQUE, re-adding to a SET, reading a never-assigned LIST element) the oracle is 'free'",
    ]}

"""C14 - appending a file keeps both populations whole and their references separate.

D: spec/SessionImpl.tla (SetFileIdIncrement, pass 1, pass 2) is checked by TLC to refine the abstract
   spec/Session.tla (AppendExchange: one common offset above every earlier id, all references shifted) and to
   satisfy AppendOK / MaxOK.
G+V: spec/Session_Gen.tla enumerates scenarios Read F1; Append F2 [; Append F3] over colliding, sparse and
   near-1000 id sets with references in every position; each is rendered as Part 21 text for schemas/sess.exp and
   run on the real STEPfile; after every call the population is written out, parsed by the harness' own parser
   and logged together with the increment the implementation chose; TLC validates the log against Session.
"""
import concurrent.futures as cf
import json
import os
import shutil

from vf import build, sess, tlc
from vf.common import InfraError, mkdir, sha


def scenario_events(tag, files, res, wd):
    """Turn the driver's results for one scenario into trace events."""
    ev = [json.dumps({"e": "Reset"})]
    it = iter(res)
    nxt = lambda: next(it, {"cmd": "missing"})
    r = nxt()   # new
    for k, F in enumerate(files):
        call = nxt()
        if call.get("cmd") == "crash":
            ev.append(json.dumps({"e": "Crash", "rc": call["rc"], "during": "read" if k == 0 else "append"}))
            return ev
        st = nxt()
        wr = nxt()
        if "crash" in (st.get("cmd"), wr.get("cmd")) or st.get("cmd") != "states":
            ev.append(json.dumps({"e": "Crash", "rc": (st.get("rc") or wr.get("rc")), "during": "write"}))
            return ev
        pop = sess.project(os.path.join(wd, "%s-o%d.p21" % (tag, k)), st["list"])
        ev.append(json.dumps({"e": "Read" if k == 0 else "Append", "file": F, "incr": call["incr"], "sev": call["sev"],
                              "esev": call["esev"], "pop": pop}))
    return ev


def family_segments(ctx, wd):
    """C14 on generated schemas: Read P(n); Append P(n+1) [; Append P(n+2)] for the populations of
    spec/Population.tla (all files use the same ids 10, 20, ...: every id collides), judged by the same trace
    specification through the generic projection (keyword, parameter text with references blanked, references)"""
    from checks import c01
    from vf import express, p21
    cases = []
    g = tlc.run_tlc("Population_Gen", None, workers=4, timeout=900, on_case=cases.append,
                    cfg_text="CONSTANTS Deep = %s Rounds = %d\nINIT Init\nNEXT Next\nINVARIANT Emit\n" % ("FALSE" if ctx.quick else "TRUE", 3 if ctx.quick else 5))
    if g.rc != 0 or g.errors:
        raise InfraError("Population_Gen failed: %s" % g.tail[-10:])
    by = {}
    for c in cases:
        if c["conforming"]:
            by.setdefault(json.dumps(c["choice"], sort_keys=True), {})[c["n"]] = c
    keys = sorted(by)
    if ctx.quick:
        strata = {}
        for k in keys:
            ch = json.loads(k)
            strata.setdefault((ch["inh"], ch["ts"]["k"], ch["ts"].get("of", "")), []).append(k)
        keys = sorted(v[len(v) // 2] for v in strata.values())

    def one(k):
        cs = by[k]
        txt = express.render(cs[0]["schema"])
        tag = "c02_" + sha(txt)[:10]
        try:
            lib = build.schema_lib(tag, txt)
            drv = build.link_driver("session_" + tag, [c01.DRV], schema=lib)
        except build.BuildFailure as ex:
            return k, None, str(ex)[-400:]
        bwd = mkdir(os.path.join(wd, "fam_" + sha(k)[:8]))
        scripts, metas = [], []
        rounds = sorted(cs)
        for n in rounds[:-1]:
            seq = [n, n + 1] + ([n + 2] if (n + 2) in cs and not ctx.quick else [])
            t2 = "F%s_%d" % (sha(k)[:8], n)
            lines = ["new 0"]
            texts = []
            for j, m in enumerate(seq):
                variant = c01.VARIANTS[(n + j) % len(c01.VARIANTS)]
                text = c01.render_pop(cs[0]["schema"]["name"], cs[m]["pop"], variant, n * 5 + j, None)
                f = os.path.join(bwd, "%s_i%d.p21" % (t2, j))
                open(f, "w", newline="").write(text)
                texts.append(text)
                lines += ["%s %s" % ("read" if j == 0 else "append", f), "states", "writenv %s" % os.path.join(bwd, "%s-o%d.p21" % (t2, j))]
            scripts.append((t2, lines))
            metas.append((t2, texts))
        res = sess.run_scripts(drv, scripts, bwd)
        segs = []
        for t2, texts in metas:
            files = [sess.project_generic(t, None, True) for t in texts]
            # a file is given in file order; the abstract file of Session is in manager order = file order
            ev = [json.dumps({"e": "Reset"})]
            it = iter(res.get(t2, []))
            nxt = lambda: next(it, {"cmd": "missing"})
            nxt()
            for j, F in enumerate(files):
                call, st, wr = nxt(), nxt(), nxt()
                if "crash" in (call.get("cmd"), st.get("cmd"), wr.get("cmd")) or st.get("cmd") != "states":
                    ev.append(json.dumps({"e": "Crash", "rc": call.get("rc") or st.get("rc") or wr.get("rc"), "during": "read" if j == 0 else "append"}))
                    break
                pop = sess.project_generic(os.path.join(bwd, "%s-o%d.p21" % (t2, j)), st["list"])
                ev.append(json.dumps({"e": "Read" if j == 0 else "Append", "file": F, "incr": call["incr"], "sev": call["sev"],
                                      "esev": call["esev"], "pop": pop}))
            segs.append((ev, {"schema": k, "round": t2, "files": texts}))
        shutil.rmtree(bwd, ignore_errors=True)
        return k, segs, ""
    out = []
    with cf.ThreadPoolExecutor(max_workers=3) as ex:
        for k, segs, err in ex.map(one, keys):
            if segs is None:
                ctx.violation("family-build|" + k, "generated library of a family schema does not build: " + err[-200:], {"choice": k})
                continue
            out.extend(segs)
    return out, len(keys)


def run(ctx):
    q = ctx.quick
    cov = {}
    d = tlc.check_design("SessionImpl_MC", "SessionImpl_MC.cfg", workers=8, timeout=900)
    for v in d.violated:
        ctx.violation("design|" + v, "SessionImpl violates %s" % v, {"tlc": d.tail[-40:]})
    cov["states"], cov["transitions"] = d.distinct, d.generated
    cov["design"] = {"module": "SessionImpl_MC", "checked": ["AppendOK", "MaxOK", "Refines (SessionImpl => Session)"]}
    drv = sess.driver()
    wd = os.path.join(ctx.work, "s")
    shutil.rmtree(wd, ignore_errors=True)
    mkdir(wd)
    scen = []
    g = tlc.run_tlc("Session_Gen", None, workers=4, timeout=1800, on_case=scen.append,
                    cfg_text="CONSTANTS NFirst = %d Third = %s\nINIT Init\nNEXT Next\nINVARIANT Emit\n"
                             % (1 if q else 3, "FALSE" if q else "TRUE"))
    if g.rc != 0 or g.errors:
        raise InfraError("Session_Gen failed: %s" % g.tail[-10:])
    fcache = {}

    def fpath(F, sep):
        key = sha(json.dumps(F), sep)[:16]
        p = os.path.join(wd, "f-%s.p21" % key)
        if key not in fcache:
            with open(p, "w") as f:
                f.write(sess.file_text(F, sep=sep))
            fcache[key] = p
        return p

    def batch(bi, items):
        bwd = mkdir(os.path.join(wd, "b%d" % bi))
        scripts = []
        for tag, files in items:
            sep = " " if (int(tag) + ctx.seed) % 3 == 0 else ""
            lines = ["new 0"]
            for k, F in enumerate(files):
                lines += ["%s %s" % ("read" if k == 0 else "append", fpath(F, sep)), "states",
                          "writenv %s" % os.path.join(bwd, "%s-o%d.p21" % (tag, k))]
            scripts.append((tag, lines))
        res = sess.run_scripts(drv, scripts, bwd)
        segs = [scenario_events(tag, files, res.get(tag, []), bwd) for tag, files in items]
        shutil.rmtree(bwd, ignore_errors=True)
        return segs

    items = [(str(i), s) for i, s in enumerate(scen)]
    # files are written up front (single thread) so that the cache needs no lock
    for tag, files in items:
        for F in files:
            for sep in ("", " "):
                fpath(F, sep)
    B = 150
    segs = []
    with cf.ThreadPoolExecutor(max_workers=12) as ex:
        for r in ex.map(lambda a: batch(*a), [(i, items[i:i + B]) for i in range(0, len(items), B)]):
            segs.extend(r)
    fam, nfam = family_segments(ctx, wd)
    nmodel = len(segs)
    segs = segs + [e for e, m in fam]
    acc, rej = tlc.validate_segments("Session_Trace", "Session_Trace.cfg", segs, os.path.join(ctx.work, "v"),
                                     parallel=8, max_events=6000)
    for r in rej:
        seg = segs[r["segment"]]
        ev = json.loads(r["line"]) if r["line"] else {}
        if r["segment"] >= nmodel:
            m = fam[r["segment"] - nmodel][1]
            ctx.violation("family-trace|%s|%s" % (ev.get("e"), m["schema"]),
                          "generated schema %s: recorded %s is not a step of Session (increment %s, severity %s): session %s" % (
                              m["schema"][:80], ev.get("e"), ev.get("incr"), ev.get("sev"), json.dumps(ev.get("pop"))[:400]),
                          {"schema": m["schema"], "files": m["files"], "event": ev})
            continue
        files = scen[r["segment"]]
        what = "unexplained"
        key = "trace|%s|%s" % (ev.get("e"), sha(json.dumps(files))[:12])
        if ev.get("e") in ("Read", "Append"):
            what = "after %s the session is %s (increment %s, severity %s)" % (
                ev["e"], json.dumps(ev.get("pop"))[:600], ev.get("incr"), ev.get("sev"))
        ctx.violation(key, "recorded call is not a step of Session: " + what,
                      {"files": files, "event": ev, "file_text": [sess.file_text(F) for F in files]})
    shutil.rmtree(wd, ignore_errors=True)
    cov.update({
        "traces_validated_against_impl": acc,
        "exhaustive": True,
        "scenarios": len(scen), "events": sum(len(s) for s in segs), "rejected": len(rej),
        "generated_schema_family": {"schemas": nfam, "scenarios": len(fam)},
        "samples": [{"scenario": scen[0], "events": [json.loads(x) for x in segs[0]]}] if scen else [],
        "evaluations": len(scen), "distinct_nontrivial": len(scen),
        "rule": "first file x every file shape (5 id sets x referrer type x reference pattern x target link x "
                "forward/backward order)%s; every scenario has colliding ids between the files" % (
                    "" if q else " x third file"),
    })
    return {"level": "model_checking", "coverage": cov, "assumptions": [
        "references inside nested aggregates are outside the model schema (known structural defect F-14a is a "
        "separate finding, see DESIGN.md)",
        "the written population is parsed by the harness' own Part 21 parser (lib/vf/p21.py)"]}

"""C12 - generators and the pretty printer are deterministic functions of their input.

spec/Runs.tla: a history of tool runs is Functional when equal (tool, input) give equal output trees whatever the
configuration (address-space randomisation, working directory, the path by which the input is named, environment
size, earlier runs).  TLC enumerates the configuration plan (the base configuration, every configuration one
coordinate away, the all-different one; thorough: the full product); every (tool, schema, configuration) run is
performed (setarch -R for ASLR off), the output tree is hashed, and TLC validates the run log.  No generated file
may contain the working directory or the input path.
"""
import concurrent.futures as cf
import hashlib
import json
import os
import shutil
import subprocess

from checks import frontend_common as fc
from vf import build, express, tlc
from vf.common import InfraError, mkdir

BOUNDS_HEAD = """CONSTANT
  kn : INTEGER := 4;
END_CONSTANT;
"""
BOUNDS = """FUNCTION fb(p : INTEGER) : INTEGER; RETURN (p); END_FUNCTION;
ENTITY withbounds;
  cntb : INTEGER;
  b1 : LIST [1:3] OF INTEGER;
  b2 : LIST [1:kn] OF INTEGER;
  b3 : ARRAY [1:2+1] OF INTEGER;
  b4 : LIST [1:cntb] OF INTEGER;
  b5 : SET [0:fb(3)] OF INTEGER;
END_ENTITY;
"""


MUTUAL = """SCHEMA alpha;
USE FROM beta (mid);
TYPE tag = STRING;
END_TYPE;
ENTITY top;
  t : tag;
END_ENTITY;
ENTITY low SUBTYPE OF (mid);
  n : INTEGER;
END_ENTITY;
END_SCHEMA;

SCHEMA beta;
USE FROM alpha (top);
REFERENCE FROM alpha (tag);
ENTITY mid SUBTYPE OF (top);
  second : OPTIONAL tag;
END_ENTITY;
END_SCHEMA;
"""


def tree_digest(d, forbidden):
    h = hashlib.sha256()
    foreign = []
    for root, dirs, files in os.walk(d):
        dirs.sort()
        for f in sorted(files):
            p = os.path.join(root, f)
            rel = os.path.relpath(p, d)
            data = open(p, "rb").read()
            h.update(rel.encode() + b"\0" + hashlib.sha256(data).digest())
            for s in forbidden:
                if s.encode() in data:
                    foreign.append("%s contains %r" % (rel, s))
    return h.hexdigest()[:24], foreign


def run(ctx):
    bdir = build.core("plain")
    scan = build.scanner("plain")
    cfgs = []
    g = tlc.run_tlc("Runs_Gen", None, workers=2, timeout=300, on_case=cfgs.append,
                    cfg_text="CONSTANTS Deep = %s\nINIT GInit\nNEXT GNext\nINVARIANT Emit\n" % ("FALSE" if ctx.quick else "TRUE"))
    if g.rc != 0 or g.errors or not cfgs:
        raise InfraError("Runs_Gen failed: %s" % g.tail[-10:])
    forms = cfgs[0]
    cfgs = [c["cfg"] for c in cfgs]
    cfgs.sort(key=lambda c: json.dumps(c, sort_keys=True))
    # every bound / width form of Runs!BoundForms as an attribute of its own
    attrs = ["  cntb : INTEGER;", "  lst : LIST [0:?] OF INTEGER;"]
    for i, b in enumerate(forms["bounds"]):
        attrs.append("  u%d : %s [%s:%s] OF INTEGER;" % (i, "LIST" if b == "?" else ("ARRAY", "LIST", "SET", "BAG")[i % 4], "1" if b != "?" else "0", b))
    for i, b in enumerate(forms["lowers"]):
        attrs.append("  l%d : ARRAY [%s:9] OF REAL;" % (i, b))
    for i, b in enumerate(forms["widths"]):
        attrs.append("  w%d : STRING(%s);" % (i, b))
        attrs.append("  x%d : BINARY(%s) FIXED;" % (i, b))
    # text that is carried into the generated files verbatim: string literals must be copied, never interpreted
    # (conversion specifications of C format strings, back-slashes, quotes)
    # (and characters that UTF-8 encodes in several bytes, in literals long enough to reach the line limit: the layout
    # must not depend on how the locale counts them)
    texts = ["item %d of %d", "%s and %s", "100%", "%5.2f %x %c %p", "back\\\\slash \\\\n", "%%",
             "na\u00efve caf\u00e9 \u2013 \u00bd " * 7, "\u00e4\u00f6\u00fc\u00df" * 30, "\u00e9"]
    bounds_body = ("FUNCTION fb(p : INTEGER) : INTEGER; RETURN (p); END_FUNCTION;\nENTITY withbounds;\n" + "\n".join(attrs)
                   + "\n  lbl : STRING;\nDERIVE\n" + "\n".join("  dt%d : STRING := '%s';" % (i, t) for i, t in enumerate(texts))
                   + "\nWHERE\n" + "\n".join("  wt%d : lbl <> '%s';" % (i, t) for i, t in enumerate(texts)) + "\nEND_ENTITY;\n"
                   + "".join("TYPE tb%d = LIST [1:%s] OF LIST [%s:5] OF INTEGER;\nEND_TYPE;\n" % (i, b, forms["lowers"][i % len(forms["lowers"])])
                             for i, b in enumerate(forms["bounds"]) if b != "?" and "cntb" not in b and "lst" not in b))
    cases, g2 = fc.gen(ctx, with_mutants=False)
    cases = [c for c in cases if not c["schema"]["aux"]]
    cases = fc.stratify(cases)[:6] if ctx.quick else fc.stratify(cases, 2)
    wd = os.path.join(ctx.work, "s")
    shutil.rmtree(wd, ignore_errors=True)
    root = mkdir(os.path.join(wd, "root"))
    inputs = []
    for i, c in enumerate(cases):
        inputs.append(("fam%d" % i, express.render(c["schema"])))
    inputs.append(("bounds", express.render(cases[0]["schema"], BOUNDS_HEAD, bounds_body)))
    # files with several schemas: one that uses another, and two that use each other with a supertype chain that
    # crosses the schema border twice (alpha.top <- beta.mid <- alpha.low: the generators print alpha in two passes)
    allc, _ = fc.gen(ctx, with_mutants=False)
    auxc = [c for c in allc if c["schema"]["aux"]]
    if auxc:
        inputs.append(("twoschemas", express.render(auxc[len(auxc) // 2]["schema"])))
    inputs.append(("mutual", MUTUAL))
    if not ctx.quick:
        # the application-protocol schemas shipped in data/ (all four tools, every configuration of the plan)
        import glob
        from vf.common import REPO
        for f in sorted(glob.glob(os.path.join(REPO, "data", "*", "*.exp"))):
            inputs.append(("shipped_" + os.path.basename(f)[:-4], open(f, errors="replace").read()))
    tools = [("exp2cxx", os.path.join(bdir, "bin", "exp2cxx")), ("exp2python", os.path.join(bdir, "bin", "exp2python")),
             ("exppp", os.path.join(bdir, "bin", "exppp")), ("schema_scanner", scan)]
    jobs = []
    BASE = {"aslr": "on", "cwd": "short", "path": "abs", "env": "small", "locale": "C", "heap": "default", "prior": "none"}
    FAR = {"aslr": "off", "cwd": "long/deeper/dir", "path": "dotted", "env": "big", "locale": "C.UTF-8", "heap": "perturb", "prior": "same"}
    for name, text in inputs:
        for tname, tbin in tools:
            for k, c in enumerate(cfgs):
                # the big shipped schemas run under the base configuration, its one-coordinate neighbours and the
                # all-different one (the plan of the quick tier), not under the full product
                if name.startswith("shipped_") and not (c == FAR or sum(1 for x in BASE if c[x] != BASE[x]) <= 1):
                    continue
                jobs.append((name, text, tname, tbin, k, c))

    def one(j):
        name, text, tname, tbin, k, c = j
        base = mkdir(os.path.join(root, "%s_%s_%d" % (name, tname, k)))
        cwd = mkdir(os.path.join(base, c["cwd"], "out"))
        srcdir = mkdir(os.path.join(base, "src" if c["cwd"] == "short" else "some/other/place"))
        src = os.path.join(srcdir, "model_schema_file.exp")
        open(src, "w", encoding="utf-8").write(text)
        if c["path"] == "abs":
            arg = src
        elif c["path"] == "rel":
            arg = os.path.relpath(src, cwd)
        else:
            arg = "./" + os.path.relpath(src, cwd).replace("/", "/./", 1)
        env = {"PATH": os.environ.get("PATH", ""), "HOME": "/nonexistent"}
        if c["env"] == "big":
            for n in range(200):
                env["VERIF_PAD_%d" % n] = "x" * 200
        env["LC_ALL"] = c["locale"]
        if c["heap"] == "mmap":
            env["MALLOC_MMAP_THRESHOLD_"] = "1"
        elif c["heap"] == "perturb":
            env["MALLOC_PERTURB_"] = "165"
            env["MALLOC_TOP_PAD_"] = "65536"
        cmd = [tbin, arg]
        if c["aslr"] == "off":
            cmd = ["setarch", os.uname().machine, "-R"] + cmd
        try:
            if c.get("prior") == "same":      # the output directory has already seen a complete run on this input
                subprocess.run(cmd, cwd=cwd, env=env, stdout=subprocess.PIPE, stderr=subprocess.PIPE, timeout=600)
            p = subprocess.run(cmd, cwd=cwd, env=env, stdout=subprocess.PIPE, stderr=subprocess.PIPE, timeout=600)
            rc = p.returncode
        except subprocess.TimeoutExpired:
            rc = 124
        # the scanner embeds the path it was given in SCHEMA_TARGETS(...) by design of the build description: the
        # input path is allowed there and is normalised away before hashing
        if tname == "schema_scanner":
            for r_, _, fs in os.walk(cwd):
                for f in fs:
                    pth = os.path.join(r_, f)
                    t = open(pth).read().replace(arg, "<INPUT>")
                    open(pth, "w").write(t)
        dig, foreign = tree_digest(cwd, [base] if tname != "schema_scanner" else [])
        shutil.rmtree(base, ignore_errors=True)
        return name, tname, k, c, rc, dig, foreign
    lines, metas = [], []
    with cf.ThreadPoolExecutor(max_workers=12) as ex:
        for name, tname, k, c, rc, dig, foreign in ex.map(one, jobs):
            if rc != 0:
                # is the input at fault (harness error) or the tool?  The checker decides.
                chk = os.path.join(wd, "chk_%s.exp" % name)
                open(chk, "w", encoding="utf-8").write(dict(inputs)[name])
                pc = subprocess.run([os.path.join(bdir, "bin", "check-express"), chk], stdout=subprocess.PIPE, stderr=subprocess.PIPE, text=True, timeout=120)
                if pc.returncode != 0:
                    raise InfraError("input %s is rejected by check-express - the harness' input is wrong: %s" % (name, pc.stderr[:300]))
                ctx.violation("tool-failed|%s|%s" % (tname, name), "%s exits with status %s on the accepted input %s under %s" % (tname, rc, name, json.dumps(c)),
                              {"input": dict(inputs)[name], "cfg": c})
                continue
            lines.append(json.dumps({"e": "Run", "tool": tname, "input": name, "cfg": c, "out": "%s/rc%d" % (dig, rc), "foreign": bool(foreign),
                                     "why": "; ".join(foreign)[:200]}))
            metas.append((name, tname, c))
    tp = os.path.join(wd, "trace.ndjson")
    open(tp, "w").write("\n".join(lines) + "\n")
    got = []
    r = tlc.run_tlc("Runs_Trace", "Runs_Trace.cfg", workers=1, timeout=900, env={"TRACE": tp}, on_case=got.append)
    if r.rc != 0 or r.post_violated or r.errors:
        raise InfraError("Runs_Trace did not consume the record: rc=%s %s" % (r.rc, r.tail[-12:]))
    texts = dict(inputs)
    for rep in got:
        ev = rep["ev"]
        key = "%s|%s|%s" % (rep["what"], ev["tool"], ev["input"])
        ctx.violation(key, "%s: %s on %s under %s %s" % (rep["what"], ev["tool"], ev["input"], json.dumps(ev["cfg"]), ev.get("why", "")),
                      {"event": ev, "input": texts[ev["input"]]})
    shutil.rmtree(wd, ignore_errors=True)
    cov = {"evaluations": len(jobs), "distinct_nontrivial": len(inputs) * len(tools) * max(1, len(cfgs) - 1),
           "configurations": len(cfgs), "inputs": len(inputs), "tools": [t for t, _ in tools], "states": g.distinct,
           "samples": [json.loads(lines[0]), json.loads(lines[-1])],
           "rule": "every (tool, input) under every configuration of Runs!Plan; non-trivial = a run compared with an earlier "
                   "run of the same (tool, input) under a different configuration"}
    return {"level": "exploration", "coverage": cov, "assumptions": [
        "determinism is shown for the configurations run, not for all conceivable ones",
        "the schema scanner writes the path it was given into SCHEMA_TARGETS(...) by design; that occurrence is normalised"]}

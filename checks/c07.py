"""C07 - pretty-printed EXPRESS is valid, equivalent to its source and stable.

spec/Expr.tla: expression syntax trees, the precedence table of ISO 10303-11 and the minimal-parenthesis source
rendering (TLC checks the rendering injective on the case set; the harness re-parses every rendering with the
exported table).  spec/Expr_Gen.tla enumerates every pair of binary operators in both nestings, unary over binary,
every literal kind, aggregate initialisers with repetition, intervals, function calls.  All cases become DERIVE
attributes and WHERE rules of one host entity; exppp prints the schema at several line lengths; (1) the output must
be accepted by check-express, (2) every printed expression is parsed with the specification's precedence table and
compared with the source tree, every declaration of the valid schema family is compared token by token,
(3) printing the output again changes nothing but line breaks.
"""
import json
import os
import re
import shutil
import subprocess

from checks import frontend_common as fc
from vf import build, express, exprparse, tlc
from vf.common import InfraError, mkdir

HEAD = ["SCHEMA ex;", "FUNCTION f1(p : NUMBER) : NUMBER; RETURN (p); END_FUNCTION;", "ENTITY host;", "  a1 : INTEGER;",
        "  a7 : NUMBER;", "  a3 : STRING;"]


def run_exppp(bdir, src, d, opts):
    mkdir(d)
    p = subprocess.run([os.path.join(bdir, "bin", "exppp")] + opts + [src], cwd=d, stdout=subprocess.PIPE, stderr=subprocess.PIPE, text=True, timeout=120)
    outs = [f for f in os.listdir(d) if f.endswith(".exp")]
    return p.returncode, p.stderr, (open(os.path.join(d, outs[0])).read() if outs else None)


def labelled(tokens):
    """{label: token list of the expression} for 'label : expr ;' (WHERE) and 'label : type := expr ;' (DERIVE)"""
    out = {}
    i = 0
    n = len(tokens)
    while i < n:
        k, v = tokens[i]
        if k == "id" and re.match(r"^[dw]_\d+$", v) and i + 1 < n and tokens[i + 1] == ("op", ":"):
            j = i + 2
            if v.startswith("d_"):
                while j < n and tokens[j] != ("op", ":="):
                    j += 1
                j += 1
            e = j
            depth = 0
            while e < n and not (tokens[e] == ("op", ";") and depth == 0):
                if tokens[e][1] in "([{":
                    depth += 1
                elif tokens[e][1] in ")]}":
                    depth -= 1
                e += 1
            out[v] = tokens[j:e]
            i = e
        i += 1
    return out


def decl_tokens(text):
    """declarations of a schema as a set of token tuples, grouping parentheses removed (expressions are compared as trees
    elsewhere), so that the order in which the printer emits declarations does not matter"""
    toks = [t for t in exprparse.tokenize(text)]
    decls, cur = [], []
    for k, v in toks:
        cur.append(v.upper() if k == "id" else v)
        if k == "id" and v.upper() in ("END_ENTITY", "END_TYPE", "END_FUNCTION", "END_RULE", "END_CONSTANT", "END_PROCEDURE"):
            decls.append(cur)
            cur = []
    out = set()
    for d in decls:
        d = [x for x in d if x not in ("(", ")")]
        while d and d[0] in (";",):
            d = d[1:]
        # the interface/SCHEMA header tokens stay with the first declaration: drop everything before the keyword
        for kw in ("ENTITY", "TYPE", "FUNCTION", "RULE", "CONSTANT", "PROCEDURE"):
            if kw in d:
                d = d[d.index(kw):]
                break
        out.add(tuple(d))
    return out


def run(ctx):
    bdir = build.core("plain")
    cases = []
    g = tlc.run_tlc("Expr_Gen", None, workers=4, timeout=600, on_case=cases.append,
                    cfg_text="CONSTANTS Deep = %s\nINIT Init\nNEXT Next\nINVARIANT Emit\nINVARIANT Injective\n" % ("FALSE" if ctx.quick else "TRUE"))
    if g.violated:
        ctx.violation("design|Injective", "Expr!Render is not injective on the case set", {"tlc": g.tail[-20:]})
    elif g.rc != 0 or g.errors or not cases:
        raise InfraError("Expr_Gen failed: %s" % g.tail[-10:])
    cases.sort(key=lambda c: c["src"])
    prec = cases[0]["prec"]
    for c in cases:     # the specification's table parses its own renderings back to the same trees
        if exprparse.norm(exprparse.parse_expr(exprparse.tokenize(c["src"]), prec)) != exprparse.norm(c["e"]):
            ctx.violation("design|parse-render|" + c["src"], "Parse(Render(e)) differs from e for %s" % c["src"], {"case": c})
    wd = os.path.join(ctx.work, "s")
    shutil.rmtree(wd, ignore_errors=True)
    mkdir(wd)
    lab = {}
    lines = list(HEAD) + ["DERIVE"]
    for i, c in enumerate(cases):
        if c["kind"] == "num":
            lab["d_%d" % i] = c
            lines.append("  d_%d : NUMBER := %s;" % (i, c["src"]))
    lines.append("WHERE")
    for i, c in enumerate(cases):
        if c["kind"] == "bool":
            lab["w_%d" % i] = c
            lines.append("  w_%d : %s;" % (i, c["src"]))
    lines += ["  a1 > 0;", "END_ENTITY;", "END_SCHEMA;"]       # the last rule is unlabelled
    src = os.path.join(wd, "ex.exp")
    open(src, "w").write("\n".join(lines) + "\n")
    p = subprocess.run([os.path.join(bdir, "bin", "check-express"), src], stdout=subprocess.PIPE, stderr=subprocess.PIPE, text=True)
    if p.returncode != 0:
        raise InfraError("the host schema is not accepted by check-express (harness input wrong): %s" % p.stderr[:400])
    nexpr = 0
    widths = [[], ["-l", "40"]] if ctx.quick else [[], ["-l", "20"], ["-l", "40"], ["-l", "75"], ["-l", "200"], ["-l", "99999"], ["-t"], ["-c"]]
    for wi, opts in enumerate(widths):
        tagw = "-".join(opts) or "default"
        rc, err, out = run_exppp(bdir, src, os.path.join(wd, "w%d" % wi), opts)
        if rc != 0 or out is None:
            ctx.violation("exppp-failed|" + tagw, "exppp %s rc=%s on the accepted host schema: %s" % (tagw, rc, err[-200:]), {"input": open(src).read()})
            continue
        o1 = os.path.join(wd, "w%d" % wi, "printed.exp")
        open(o1, "w").write(out)
        # (1) accepted again
        q = subprocess.run([os.path.join(bdir, "bin", "check-express"), o1], stdout=subprocess.PIPE, stderr=subprocess.PIPE, text=True)
        if q.returncode != 0:
            first = q.stderr.strip().split("\n")[0]
            m = re.search(r":(\d+):", first)
            ln = out.split("\n")[int(m.group(1)) - 1 if m else 0][:120] if m else ""
            why = re.sub(r"^.*?: ", "", first)[:80]
            ctx.violation("output-rejected|%s" % re.sub(r"[dw]_\d+", "L", why), "exppp %s output is rejected by check-express: %s near %r" % (tagw, why, ln),
                          {"options": opts, "stderr": q.stderr[:600], "line": ln})
        # (2) expression by expression
        got = labelled(exprparse.tokenize(out, tolerant=True))
        for name, c in lab.items():
            nexpr += 1
            if name not in got:
                ctx.violation("expr-missing|" + c["src"], "%s (%s) is missing from the output of exppp %s" % (name, c["src"], tagw), {"case": c, "options": opts})
                continue
            try:
                e = exprparse.norm(exprparse.parse_expr(got[name], prec))
            except (exprparse.ParseError, ValueError, IndexError) as ex:
                ctx.violation("expr-unparsable|" + c["src"], "printed form of %s cannot be parsed: %s :: %s" % (c["src"], " ".join(t[1] for t in got[name])[:120], ex),
                              {"case": c, "options": opts})
                continue
            if e != exprparse.norm(c["e"]):
                ctx.violation("expr-differs|" + c["src"], "%s printed as %s (exppp %s)" % (c["src"], " ".join(t[1] for t in got[name])[:160], tagw),
                              {"case": c, "options": opts, "printed": [t[1] for t in got[name]]})
        # (3) idempotence up to line breaks
        rc2, err2, out2 = run_exppp(bdir, o1, os.path.join(wd, "w%d" % wi, "again"), opts)
        if out2 is None or [t for t in re.split(r"\s+", out2) if t] != [t for t in re.split(r"\s+", out) if t]:
            ctx.violation("not-idempotent|" + tagw, "printing the output of exppp %s again changes more than line breaks (rc %s)" % (tagw, rc2), {"options": opts})
    # whole declarations of the schema family
    fam, g2 = fc.gen(ctx, with_mutants=False)
    fam = [c for c in fam if not c["schema"]["aux"]]
    fam = fam[:4] if ctx.quick else fam[::3]
    nd = 0
    for i, c in enumerate(fam):
        s = os.path.join(wd, "f%d.exp" % i)
        txt = express.render(c["schema"])
        open(s, "w").write(txt)
        rc, err, out = run_exppp(bdir, s, os.path.join(wd, "fam%d" % i), [])
        nd += 1
        key0 = json.dumps(c["choice"], sort_keys=True)
        if rc != 0 or out is None:
            ctx.violation("exppp-failed|" + key0, "exppp rc=%s on a valid schema: %s" % (rc, err[-200:]), {"input": txt})
            continue
        a, b = decl_tokens(txt), decl_tokens(out)
        if a != b:
            only_src = sorted(" ".join(x)[:160] for x in a - b)[:2]
            only_out = sorted(" ".join(x)[:160] for x in b - a)[:2]
            ctx.violation("declarations-differ|" + key0, "declarations differ: only in source %s; only in output %s" % (only_src, only_out), {"input": txt, "output": out})
    shutil.rmtree(wd, ignore_errors=True)
    cov = {"states": g.distinct, "transitions": g.generated, "traces_validated_against_impl": nexpr + nd, "exhaustive": False,
           "expressions": len(cases), "line_length_settings": len(widths), "expression_comparisons": nexpr, "family_schemas": nd,
           "samples": [{"source": cases[5]["src"], "tree": cases[5]["e"]}],
           "evaluations": nexpr + nd, "distinct_nontrivial": len(cases) + nd,
           "rule": "operator-pair nestings, unary/binary, literal kinds, aggregates, intervals, calls x line-length settings; "
                   "family schemas compared declaration by declaration"}
    return {"level": "model_checking", "coverage": cov, "assumptions": [
        "statements inside FUNCTION/PROCEDURE/RULE bodies are compared as token sequences of whole declarations "
        "(grouping parentheses removed), not as trees",
        "equivalence = equal normalised trees: literals by kind and value, names case-insensitively, adjacent string "
        "literals joined by + folded"]}

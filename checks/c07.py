"""C07 - pretty-printed EXPRESS is valid, equivalent to its source and stable.

spec/Expr.tla: expression syntax trees, the precedence table of ISO 10303-11 and the minimal-parenthesis source
rendering (TLC checks the rendering injective on the case set; the harness re-parses every rendering with the
exported table).  spec/Expr_Gen.tla enumerates every pair of binary operators in both nestings, unary over binary,
every literal kind, aggregate initialisers with repetition, intervals, function calls.  All cases become DERIVE
attributes and WHERE rules of one host entity; exppp prints the schema at several line lengths; (1) the output must
be accepted by check-express, (2) every printed expression is parsed with the specification's precedence table and
compared with the source tree, every declaration of the valid schema family is compared token by token,
(3) printing the output again changes nothing but line breaks.
"""
import concurrent.futures as cf
import json
import os
import re
import shutil
import subprocess

from checks import frontend_common as fc
from vf import build, express, exprparse, tlc
from vf.common import InfraError, mkdir

# every statement kind of ISO 10303-11 clause 13 (compared declaration-wise with the printed text)
STATEMENTS = """FUNCTION stm(p : INTEGER; l : LIST OF INTEGER) : INTEGER;
  LOCAL
    v : INTEGER := 0;
    w : LIST OF INTEGER := [];
    s : STRING := 'x';
  END_LOCAL;
  ;
  v := p + 1;
  w[1] := v;
  IF v > 1 THEN
    v := 2;
  ELSE
    v := 3;
    SKIP;
  END_IF;
  IF (v = 2) AND NOT (p = 0) THEN
    RETURN (v);
  END_IF;
  CASE p OF
    -1 : RETURN (0);
    2 : v := 1;
    3 : BEGIN
      v := 4;
      v := v * 2;
    END;
    OTHERWISE : v := -v;
  END_CASE;
  REPEAT i := 1 TO 10 BY 2;
    v := v + i;
  END_REPEAT;
  REPEAT i := HIINDEX(l) TO LOINDEX(l) BY -1 WHILE v < 100 UNTIL v > 50;
    v := v + l[i];
    IF v = 7 THEN
      ESCAPE;
    END_IF;
  END_REPEAT;
  REPEAT WHILE v > 1000;
    v := v DIV 2;
  END_REPEAT;
  ALIAS q FOR w;
    INSERT (q, v, 0);
    REMOVE (q, 1);
  END_ALIAS;
  RETURN (v);
END_FUNCTION;
FUNCTION stmcase(p : INTEGER) : INTEGER;
  CASE p OF
    -1, 1, 2 : RETURN (1);
    -(2 + 1) : RETURN (2);
    OTHERWISE : RETURN (0);
  END_CASE;
  RETURN (3);
END_FUNCTION;"""
HEAD = ["SCHEMA ex;", "@@CONSTANTS@@", "TYPE lm = REAL;", "END_TYPE;", "TYPE ctr = INTEGER;", "END_TYPE;", "@@PARAMLISTS@@", STATEMENTS, "FUNCTION f1(p : NUMBER) : NUMBER; RETURN (p); END_FUNCTION;", "ENTITY host;", "  a1 : INTEGER;",
        "  a7 : NUMBER;", "  a3 : STRING;", "  a9 : LIST [2:?] OF INTEGER;"]


def statement_host():
    """a valid schema with every statement kind, a QUERY and an interval: base text for the single-token mutants of
    spec/TokMut.tla (the parser opens scopes of its own for QUERY, REPEAT and ALIAS)"""
    return ("SCHEMA ex;\n" + STATEMENTS + "ENTITY host;\n  a1 : INTEGER;\n  a9 : LIST [2:?] OF INTEGER;\nDERIVE\n  d1 : INTEGER := stm(a1, a9);\n"
            "WHERE\n  wq : SIZEOF(QUERY(x <* a9 | x > a1)) = 0;\n  wi : {1 <= a1 < 10};\n"
            "  wg : SIZEOF(QUERY(y <* [SELF] | y\\host.a1 > 0)) = 1;\nEND_ENTITY;\nEND_SCHEMA;\n")


def run_exppp(bdir, src, d, opts):
    mkdir(d)
    p = subprocess.run([os.path.join(bdir, "bin", "exppp")] + opts + [src], cwd=d, stdout=subprocess.PIPE, stderr=subprocess.PIPE, text=True, timeout=120)
    outs = [f for f in os.listdir(d) if f.endswith(".exp")]
    return p.returncode, p.stderr, (open(os.path.join(d, outs[0])).read() if outs else None)


def labelled(tokens):
    """{label: token list of the expression} for 'label : expr ;' (WHERE) and 'label : type := expr ;' (DERIVE)"""
    out = {}
    i = 0
    n = len(tokens)
    while i < n:
        k, v = tokens[i]
        if k == "id" and re.match(r"^[dwk]_\d+$", v) and i + 1 < n and tokens[i + 1] == ("op", ":"):
            j = i + 2
            if v.startswith(("d_", "k_")):
                while j < n and tokens[j] != ("op", ":="):
                    j += 1
                j += 1
            e = j
            depth = 0
            while e < n and not (tokens[e] == ("op", ";") and depth == 0):
                if tokens[e][1] in "([{":
                    depth += 1
                elif tokens[e][1] in ")]}":
                    depth -= 1
                e += 1
            out[v] = tokens[j:e]
            i = e
        i += 1
    return out


RELOPS = {"<", "<=", ">", ">="}


def _expand(toks):
    """equivalent spellings brought to one form: `a, b : T` -> `a : T; b : T`; `{lo < x <= hi}` -> `lo < x AND x <= hi`;
    an increment `BY 1` (the default) is dropped"""
    out = []
    i, n = 0, len(toks)
    incase = 0          # case labels are lists too (`a, b : statement`): not declarations, left alone
    while i < n:
        k, v = toks[i]
        if (k, v) == ("id", "CASE"):
            incase += 1
        elif (k, v) == ("id", "END_CASE"):
            incase -= 1
        # identifier list before ':'
        if incase == 0 and k == "id" and i + 1 < n and toks[i + 1] == ("op", ","):
            j, names = i, []
            while j < n and toks[j][0] == "id" and j + 1 < n and toks[j + 1] == ("op", ","):
                names.append(toks[j])
                j += 2
            if j < n and toks[j][0] == "id" and j + 1 < n and toks[j + 1] == ("op", ":"):
                names.append(toks[j])
                j += 2
                depth, e = 0, j
                while e < n and not (depth == 0 and toks[e][1] in (";", ")")):
                    if toks[e][1] in ("(", "["):
                        depth += 1
                    elif toks[e][1] in (")", "]"):
                        depth -= 1
                    e += 1
                ty = toks[j:e]
                isvar = bool(out) and out[-1] == ("id", "VAR")       # `VAR a, b : t` declares both as VAR
                for q, nm in enumerate(names):
                    out += ([("id", "VAR")] if isvar and q else []) + [nm, ("op", ":")] + ty + ([("op", ";")] if q < len(names) - 1 else [])
                i = e
                continue
        if (k, v) == ("op", "{"):
            depth, e, rel = 0, i + 1, []
            while e < n and not (depth == 0 and toks[e][1] == "}"):
                if toks[e][1] in ("(", "[", "{"):
                    depth += 1
                elif toks[e][1] in (")", "]", "}"):
                    depth -= 1
                elif depth == 0 and toks[e][1] in RELOPS:
                    rel.append(e)
                e += 1
            if len(rel) == 2 and e < n:
                lo, mid, hi = toks[i + 1:rel[0]], toks[rel[0] + 1:rel[1]], toks[rel[1] + 1:e]
                out += _expand(lo) + [toks[rel[0]]] + _expand(mid) + [("op", "AND")] + _expand(mid) + [toks[rel[1]]] + _expand(hi)
                i = e + 1
                continue
        if (k, v) == ("id", "BY") and i + 2 < n and toks[i + 1] == ("int", "1") and toks[i + 2][1] == ";":
            i += 2
            continue
        out.append((k, v))
        i += 1
    return out


def decl_tokens(text):
    """declarations of a schema as a set of token tuples, so that the order in which the printer emits declarations
    does not matter.  Removed before comparison, as the statement allows: grouping parentheses (expressions are
    compared as trees elsewhere), the splitting of a long string literal into 'a' + 'b', and the spelling of a real
    literal (compared by value); the items of a CONSTANT block are separate declarations (the printer sorts them)"""
    toks = [t for t in exprparse.tokenize(text, tolerant=True)]
    norm = []
    for k, v in toks:
        if k == "real":
            v = repr(float(v))
        elif k == "id":
            v = v.upper()
        norm.append((k, v))
    merged = []
    for k, v in _expand(norm):
        if v in ("(", ")"):
            continue
        # 'a' + 'b' -> 'ab'
        if k == "str" and len(merged) >= 2 and merged[-1] == ("op", "+") and merged[-2][0] == "str":
            merged.pop()
            pk, pv = merged.pop()
            v = pv[:-1] + v[1:]
        if v == ";" and merged and merged[-1][1] == ";":
            continue            # a null statement (the printer drops it)
        merged.append((k, v))
    norm = merged
    decls, cur = [], []
    inconst = False
    depth = 0          # nesting of algorithm declarations (a FUNCTION may declare FUNCTIONs of its own)
    for k, v in norm:
        cur.append(v)
        if k == "id" and v == "CONSTANT" and depth == 0:
            inconst = True
            cur = []
            continue
        if inconst and v == ";":
            decls.append(["CONSTANT"] + cur)
            cur = []
            continue
        if k == "id" and v in ("FUNCTION", "PROCEDURE", "RULE"):
            depth += 1
        if k == "id" and v in ("END_FUNCTION", "END_PROCEDURE", "END_RULE"):
            depth -= 1
            if depth > 0:
                continue
        if k == "id" and v in ("END_ENTITY", "END_TYPE", "END_FUNCTION", "END_RULE", "END_CONSTANT", "END_PROCEDURE"):
            if v == "END_CONSTANT":
                inconst = False
                cur = []
                continue
            if depth == 0:
                decls.append(cur)
                cur = []
    out = set()
    for d in decls:
        while d and d[0] in (";",):
            d = d[1:]
        # the interface/SCHEMA header tokens stay with the first declaration: drop everything before the keyword
        for kw in ("ENTITY", "TYPE", "FUNCTION", "RULE", "CONSTANT", "PROCEDURE"):
            if kw in d:
                d = d[d.index(kw):]
                break
        # two shapes the printer writes differently though equivalently are compared by head only: an algorithm with
        # nested algorithm declarations (printed in sorted order) and a CASE action with several labels
        # (`a, b : stmt` is printed as `a : stmt; b : stmt`)
        nested = d and d[0] in ("FUNCTION", "PROCEDURE", "RULE") and any(x in ("FUNCTION", "PROCEDURE") for x in d[1:])
        multilabel = False
        if "CASE" in d:
            for i, x in enumerate(d):
                if x == "OF" and "CASE" in d[:i]:
                    j = i + 1
                    while j < len(d) and d[j] not in (":", ";", "END_CASE"):
                        if d[j] == ",":
                            multilabel = True
                        j += 1
            for i, x in enumerate(d):       # labels after the first action: `; a , b :`
                if x == "," and "CASE" in d[:i] and "END_CASE" in d[i:]:
                    j = i
                    while j > 0 and d[j] not in (";", "OF"):
                        j -= 1
                    e = i
                    while e < len(d) and d[e] not in (":", ";"):
                        e += 1
                    if e < len(d) and d[e] == ":" and all(y not in (":=", "[") for y in d[j:e]):
                        multilabel = True
        if nested or multilabel:
            d = d[:2] + ["<compared by name only>"]
        out.add(tuple(d))
    return out


def reprint_verdict(out, out2):
    """'' = the second printing has the same tokens; 'dev' = it differs only by parentheses / the place where a long
    literal is split (Expr!Dev_SplitLiteralReparenthesised); 'differs' otherwise"""
    if out2 is None:
        return "differs"
    if [t for t in exprparse.tokenize(out, tolerant=True)] == [t for t in exprparse.tokenize(out2, tolerant=True)]:
        return ""
    a, b = decl_diff(out, out2)
    return "dev" if a == b else "differs"


def decl_diff(src, out):
    """the two declaration sets, with a declaration that either side compares by name only reduced to its head on both"""
    a, b = decl_tokens(src), decl_tokens(out)
    weak = {d[:2] for d in a | b if len(d) == 3 and d[2] == "<compared by name only>"}
    red = lambda S: {(d[:2] + ("<compared by name only>",)) if d[:2] in weak else d for d in S}
    return red(a), red(b)


def run(ctx):
    bdir = build.core("plain")
    cases = []
    g = tlc.run_tlc("Expr_Gen", None, workers=4, timeout=600, on_case=cases.append,
                    cfg_text="CONSTANTS Deep = %s\nINIT Init\nNEXT Next\nINVARIANT Emit\nINVARIANT Injective\n" % ("FALSE" if ctx.quick else "TRUE"))
    if g.violated:
        ctx.violation("design|Injective", "Expr!Render is not injective on the case set", {"tlc": g.tail[-20:]})
    elif g.rc != 0 or g.errors or not cases:
        raise InfraError("Expr_Gen failed: %s" % g.tail[-10:])
    cases.sort(key=lambda c: c["src"])
    prec = cases[0]["prec"]
    for c in cases:     # the specification's table parses its own renderings back to the same trees
        if exprparse.norm(exprparse.parse_expr(exprparse.tokenize(c["src"]), prec)) != exprparse.norm(c["e"]):
            ctx.violation("design|parse-render|" + c["src"], "Parse(Render(e)) differs from e for %s" % c["src"], {"case": c})
    wd = os.path.join(ctx.work, "s")
    shutil.rmtree(wd, ignore_errors=True)
    mkdir(wd)
    lab = {}
    # every string literal of the case set also as a CONSTANT initialiser (exppp -c treats those separately)
    strs = sorted({c["e"]["r"]["v"] for c in cases if c["e"].get("k") == "bin" and c["e"].get("op") == "LIKE" and c["e"]["r"]["k"] == "str"})
    consts = ["CONSTANT"]
    for i, v in enumerate(strs):
        lab["k_%d" % i] = {"src": "'%s'" % v, "e": {"k": "str", "v": v}, "kind": "str"}
        consts.append("  k_%d : STRING := '%s';" % (i, v))
    consts.append("END_CONSTANT;")
    # every formal parameter list of spec/ParamLists.tla: as a procedure, and (VAR dropped) as a function
    pls = []
    gp = tlc.run_tlc("ParamLists", None, workers=2, timeout=300, on_case=pls.append, cfg_text="INIT Init\nNEXT Next\nINVARIANT Emit\n")
    if gp.rc != 0 or gp.errors or not pls:
        raise InfraError("ParamLists failed: %s" % gp.tail[-10:])
    pls.sort(key=lambda c: json.dumps(c, sort_keys=True))
    procs = []
    for k, c in enumerate(pls if not ctx.quick else pls[::3]):
        ps = "; ".join("%sq%d : %s" % ("VAR " if x["var"] else "", j + 1, x["ty"]) for j, x in enumerate(c["ps"]))
        procs.append("PROCEDURE pr%d(%s);\n  RETURN;\nEND_PROCEDURE;" % (k, ps))
        if not any(x["var"] for x in c["ps"]):
            procs.append("FUNCTION fp%d(%s) : INTEGER;\n  RETURN (1);\nEND_FUNCTION;" % (k, ps))
    lines = [x for h in HEAD for x in (consts if h == "@@CONSTANTS@@" else procs if h == "@@PARAMLISTS@@" else [h])] + ["DERIVE"]
    for i, c in enumerate(cases):
        if c["kind"] == "num":
            lab["d_%d" % i] = c
            lines.append("  d_%d : NUMBER := %s;" % (i, c["src"]))
    lines.append("WHERE")
    for i, c in enumerate(cases):
        if c["kind"] == "bool":
            lab["w_%d" % i] = c
            lines.append("  w_%d : %s;" % (i, c["src"]))
    lines += ["  a1 > 0;", "END_ENTITY;", "END_SCHEMA;"]       # the last rule is unlabelled
    src = os.path.join(wd, "ex.exp")
    open(src, "w").write("\n".join(lines) + "\n")
    p = subprocess.run([os.path.join(bdir, "bin", "check-express"), src], stdout=subprocess.PIPE, stderr=subprocess.PIPE, text=True)
    if p.returncode != 0:
        raise InfraError("the host schema is not accepted by check-express (harness input wrong): %s" % p.stderr[:400])
    nexpr = 0
    # the option space comes from spec/PrintOpts.tla: every line length from 8 to 48 and samples beyond, x -t x -c
    osets = []
    go = tlc.run_tlc("PrintOpts", None, workers=2, timeout=300, on_case=osets.append,
                     cfg_text="CONSTANTS Deep = %s\nINIT Init\nNEXT Next\nINVARIANT Emit\n" % ("FALSE" if ctx.quick else "TRUE"))
    if go.rc != 0 or go.errors or not osets:
        raise InfraError("PrintOpts failed: %s" % go.tail[-10:])
    widths = sorted((["-c"] if o["c"] else []) + (["-t"] if o["t"] else []) + (["-l", str(o["len"])] if o["len"] else []) for o in osets)
    for wi, opts in enumerate(widths):
        tagw = "-".join(opts) or "default"
        rc, err, out = run_exppp(bdir, src, os.path.join(wd, "w%d" % wi), opts)
        if rc != 0 or out is None:
            ctx.violation("exppp-failed|" + tagw, "exppp %s rc=%s on the accepted host schema: %s" % (tagw, rc, err[-200:]), {"input": open(src).read()})
            continue
        o1 = os.path.join(wd, "w%d" % wi, "printed.exp")
        open(o1, "w").write(out)
        # (1) accepted again
        q = subprocess.run([os.path.join(bdir, "bin", "check-express"), o1], stdout=subprocess.PIPE, stderr=subprocess.PIPE, text=True)
        if q.returncode != 0:
            first = q.stderr.strip().split("\n")[0]
            m = re.search(r":(\d+):", first)
            ln = out.split("\n")[int(m.group(1)) - 1 if m else 0][:120] if m else ""
            why = re.sub(r"^.*?: ", "", first)[:80]
            ctx.violation("output-rejected|%s" % re.sub(r"[dw]_\d+", "L", why), "exppp %s output is rejected by check-express: %s near %r" % (tagw, why, ln),
                          {"options": opts, "stderr": q.stderr[:600], "line": ln})
        # (2) expression by expression
        got = labelled(exprparse.tokenize(out, tolerant=True))
        for name, c in lab.items():
            nexpr += 1
            if name not in got:
                ctx.violation("expr-missing|" + c["src"], "%s (%s) is missing from the output of exppp %s" % (name, c["src"], tagw), {"case": c, "options": opts})
                continue
            try:
                e = exprparse.norm(exprparse.parse_expr(got[name], prec))
            except (exprparse.ParseError, ValueError, IndexError) as ex:
                ctx.violation("expr-unparsable|" + c["src"], "printed form of %s cannot be parsed: %s :: %s" % (c["src"], " ".join(t[1] for t in got[name])[:120], ex),
                              {"case": c, "options": opts})
                continue
            if e != exprparse.norm(c["e"]):
                ctx.violation("expr-differs|" + c["src"], "%s printed as %s (exppp %s)" % (c["src"], " ".join(t[1] for t in got[name])[:160], tagw),
                              {"case": c, "options": opts, "printed": [t[1] for t in got[name]]})
        # (2b) the algorithm declarations (every statement kind) token by token
        fa, fb = decl_diff(open(src).read(), out)
        fa = {d for d in fa if d and d[0] in ("FUNCTION", "PROCEDURE")}
        fb = {d for d in fb if d and d[0] in ("FUNCTION", "PROCEDURE")}
        if fa != fb:
            ctx.violation("statements-differ|" + tagw, "exppp %s: function declarations differ: only in source %s; only in output %s" % (
                tagw, sorted(" ".join(x)[:300] for x in fa - fb)[:1], sorted(" ".join(x)[:300] for x in fb - fa)[:1]), {"options": opts, "output": out[:4000]})
        # (3) idempotence up to line breaks
        rc2, err2, out2 = run_exppp(bdir, o1, os.path.join(wd, "w%d" % wi, "again"), opts)
        if reprint_verdict(out, out2):
            ctx.violation("not-idempotent|" + tagw, "printing the output of exppp %s again changes more than line breaks (rc %s)" % (tagw, rc2), {"options": opts})
    # whole declarations of the schema family
    fam, g2 = fc.gen(ctx, with_mutants=False)
    fam = [c for c in fam if not c["schema"]["aux"]]
    fam = fc.stratify(fam) if ctx.quick else fam[::3]
    nd = 0
    for i, c in enumerate(fam):
        s = os.path.join(wd, "f%d.exp" % i)
        txt = express.render(c["schema"])
        open(s, "w").write(txt)
        fopts = widths[(7 * i) % len(widths)]       # the option sets rotate through the family
        rc, err, out = run_exppp(bdir, s, os.path.join(wd, "fam%d" % i), fopts)
        nd += 1
        key0 = json.dumps(c["choice"], sort_keys=True) + ("|" + "-".join(fopts) if fopts else "")
        if rc != 0 or out is None:
            ctx.violation("exppp-failed|" + key0, "exppp rc=%s on a valid schema: %s" % (rc, err[-200:]), {"input": txt})
            continue
        a, b = decl_diff(txt, out)
        if a != b:
            only_src = sorted(" ".join(x)[:160] for x in a - b)[:2]
            only_out = sorted(" ".join(x)[:160] for x in b - a)[:2]
            ctx.violation("declarations-differ|" + key0, "declarations differ: only in source %s; only in output %s" % (only_src, only_out), {"input": txt, "output": out})
    # the application-protocol schemas shipped in data/: accepted again, same declarations, stable
    import glob
    from vf.common import REPO
    shipped = sorted(glob.glob(os.path.join(REPO, "data", "*", "*.exp")))
    if ctx.quick:
        shipped = [x for x in shipped if "pdm" in x or "ap203.exp" in x]
    sjobs = [(x, o) for x in shipped for o in ([[]] if ctx.quick else [[], ["-l", "40"], ["-c", "-t"]])]

    def ship(j):
        path, opts = j
        tag = os.path.basename(path)[:-4] + "_" + ("-".join(opts) or "default")
        d = os.path.join(wd, "ship_" + tag.replace("/", "_"))
        try:
            rc, err, out = run_exppp(bdir, path, d, opts)
        except subprocess.TimeoutExpired:
            return tag, "exppp-failed", "time-out", None
        if rc != 0 or out is None:
            return tag, "exppp-failed", "rc=%s %s" % (rc, err[-200:]), None
        o1 = os.path.join(d, "printed.exp")
        open(o1, "w").write(out)
        q = subprocess.run([os.path.join(bdir, "bin", "check-express"), o1], stdout=subprocess.PIPE, stderr=subprocess.PIPE, text=True)
        if q.returncode != 0:
            return tag, "output-rejected", q.stderr.strip().split("\n")[0][:200], None
        a, b = decl_diff(open(path, errors="replace").read(), out)
        if a != b:
            return tag, "declarations-differ", "only in source %s; only in output %s" % (
                sorted(" ".join(x)[:200] for x in a - b)[:1], sorted(" ".join(x)[:200] for x in b - a)[:1]), None
        rc2, err2, out2 = run_exppp(bdir, o1, os.path.join(d, "again"), opts)
        v = reprint_verdict(out, out2)
        if v == "dev":
            return tag, "dev:Dev_SplitLiteralReparenthesised", "printing the output again adds parentheses around a literal the first printing split", None
        if v:
            return tag, "not-idempotent", "printing the output again changes more than line breaks (rc %s)" % rc2, None
        return tag, "", "", None
    nship = 0
    with cf.ThreadPoolExecutor(max_workers=8) as ex:
        for tag, what, msg, _ in ex.map(ship, sjobs):
            nship += 1
            if what.startswith("dev:"):
                ctx.violation(what, "%s: %s" % (tag, msg), {"schema": tag})
            elif what:
                ctx.violation("%s|shipped:%s" % (what, tag), "%s on shipped schema %s: %s" % (what, tag, msg[:400]), {"schema": tag, "detail": msg})
    shutil.rmtree(wd, ignore_errors=True)
    cov = {"states": g.distinct, "transitions": g.generated, "traces_validated_against_impl": nexpr + nd + nship, "shipped_schema_runs": nship, "exhaustive": False,
           "expressions": len(cases), "line_length_settings": len(widths), "expression_comparisons": nexpr, "family_schemas": nd,
           "samples": [{"source": cases[5]["src"], "tree": cases[5]["e"]}],
           "evaluations": nexpr + nd, "distinct_nontrivial": len(cases) + nd,
           "rule": "operator-pair nestings, unary/binary, literal kinds, aggregates, intervals, calls x line-length settings; "
                   "family schemas compared declaration by declaration"}
    return {"level": "model_checking", "coverage": cov, "assumptions": [
        "statements inside FUNCTION/PROCEDURE/RULE bodies are compared as token sequences of whole declarations "
        "(grouping parentheses removed), not as trees",
        "equivalence = equal normalised trees: literals by kind and value, names case-insensitively, adjacent string "
        "literals joined by + folded"]}

"""C18 - the Python generator emits an importable module that mirrors the schema.

spec/Schema.tla!PyModule(s): one class per entity (bases = supertypes in declaration order, constructor parameters
= AttrOrder(s, e)), one definition per defined type (underlying type, enumeration items, select members).  For every
single-schema member of the family: exp2python must exit 0 and write one module; harness/py/pymod_inspect.py
compiles and imports it against the bundled runtime (src/exp2python/python) and dumps classes and type
definitions, which are compared with PyModule(s).
"""
import concurrent.futures as cf
import json
import os
import re
import shutil
import subprocess
import sys

from checks import frontend_common as fc
from vf import build, express
from vf.common import REPO, VERIF, mkdir

INSPECT = os.path.join(VERIF, "harness", "py", "pymod_inspect.py")
RT = os.path.join(REPO, "src", "exp2python", "python")
PYBASE = {"INTEGER": "INTEGER", "REAL": "REAL", "STRING": "STRING", "NUMBER": "NUMBER", "BOOLEAN": "BOOLEAN",
          "LOGICAL": "LOGICAL", "BINARY": "BINARY"}


def compare(c, dump):
    out = []
    M = c["pymodule"]
    classes = {x["name"]: x for x in dump["classes"]}
    if sorted(classes) != sorted(x["name"] for x in M["classes"]):
        out.append(("classes", "module defines classes %s, schema has entities %s" % (sorted(classes), sorted(x["name"] for x in M["classes"]))))
    for w in M["classes"]:
        g = classes.get(w["name"])
        if not g:
            continue
        bases = [b for b in g["bases"] if b != "BaseEntityClass"]
        if bases != w["bases"]:
            out.append(("bases", "class %s(%s), supertypes in declaration order are %s" % (w["name"], ",".join(g["bases"]), w["bases"])))
        params = [re.sub(r"^inherited\d+__", "", p) for p in g["params"]]
        if params == ["args", "kwargs"] and not w["params"]:
            params = []       # a class without explicit attributes defines no constructor: the base class' (*args, **kwargs) takes none
        if params != w["params"]:
            out.append(("ctor:" + w["name"], "%s.__init__(%s), Part 21 order is %s" % (w["name"], ",".join(params), w["params"])))
    types = {x["name"]: x for x in dump["types"]}
    for t in M["types"]:
        g = types.get(t["name"])
        if not g:
            out.append(("type-missing:" + t["name"], "no definition for defined type %s" % t["name"]))
            continue
        if t["k"] == "enum" and sorted(g.get("items", [])) != sorted(t["items"]):
            out.append(("enum-items", "%s: items %s, declared %s" % (t["name"], g.get("items"), t["items"])))
        if t["k"] == "select" and g.get("members") != t["members"]:
            out.append(("select-members", "%s: members %s, declared %s" % (t["name"], g.get("members"), t["members"])))
        if t["k"] == "simple" and g.get("base") != PYBASE.get(t["base"]["base"], t["base"]["base"]):
            out.append(("underlying", "%s: base %s, declared %s" % (t["name"], g.get("base"), t["base"]["base"])))
        if t["k"] == "aggr":
            b = t["base"]
            hi = None if b["hi"] == -1 else b["hi"]
            if g.get("k") != "aggr" or (g.get("agg"), g.get("lo"), g.get("hi")) != (b["agg"], b["lo"], hi):
                out.append(("aggregate", "%s: %s, declared %s" % (t["name"], g, express.typeref(b))))
    return out


def run(ctx):
    bdir = build.core("plain")
    cases, g = fc.gen(ctx, with_mutants=False)
    cases = [c for c in cases if not c["schema"]["aux"]]
    wd = os.path.join(ctx.work, "s")
    shutil.rmtree(wd, ignore_errors=True)
    mkdir(wd)
    n = dis = 0
    samples = []

    def one(a):
        i, c = a
        d = mkdir(os.path.join(wd, "c%d" % i))
        src = os.path.join(d, "m.exp")
        txt = express.render(c["schema"])
        open(src, "w").write(txt)
        p = subprocess.run([os.path.join(bdir, "bin", "exp2python"), src], cwd=d, stdout=subprocess.PIPE, stderr=subprocess.PIPE, text=True, timeout=120)
        mods = [f for f in os.listdir(d) if f.endswith(".py")]
        dump = None
        if p.returncode == 0 and mods == ["m.py"]:
            q = subprocess.run([sys.executable, INSPECT, RT, d, "m"], stdout=subprocess.PIPE, stderr=subprocess.PIPE, text=True, timeout=120,
                               env=dict(os.environ, PYTHONDONTWRITEBYTECODE="1"))
            try:
                dump = json.loads(q.stdout)
            except ValueError:
                dump = {"compiled": False, "imported": False, "error": "inspector failed: " + q.stderr[-300:], "classes": [], "types": []}
        shutil.rmtree(d, ignore_errors=True)
        return i, c, txt, p.returncode, mods, dump, p.stderr[-300:]
    with cf.ThreadPoolExecutor(max_workers=12) as ex:
        for i, c, txt, rc, mods, dump, err in ex.map(one, list(enumerate(cases))):
            n += 1
            key0 = json.dumps(c["choice"], sort_keys=True)
            if rc != 0 or mods != ["m.py"]:
                ctx.violation("generate|" + key0, "exp2python rc=%s, modules written %s: %s" % (rc, mods, err), {"choice": c["choice"], "input": txt})
                continue
            if not dump["imported"]:
                m = re.match(r"(\w+): (.{0,60})", dump["error"])
                what = (m.group(2) if m else dump["error"])[:60]
                if m and m.group(1) == "PyCompileError":       # the message starts with the file name: key on the offending line
                    ls = [x.strip() for x in dump["error"].split("\n") if x.strip() and not x.strip().startswith(("File ", "^"))]
                    what = " / ".join(ls[-2:])[:80]
                key = "import|%s|%s" % (m.group(1) if m else "?", what)
                if c.get("pykeywords") and m and m.group(1) == "PyCompileError" and "SyntaxError" in dump["error"]:
                    key = "dev:Dev_PyKeywordUnescaped"
                ctx.violation(key,
                              "generated module cannot be %s: %s" % ("imported" if dump["compiled"] else "compiled", dump["error"][:300]),
                              {"choice": c["choice"], "input": txt, "error": dump["error"]})
                continue
            if not samples:
                samples.append({"choice": c["choice"], "class": dump["classes"][-1]})
            for clause, msg in compare(c, dump):
                dis += 1
                devp = {d["name"]: d["params"] for d in c["pydiamond"]}
                got = {x["name"]: [re.sub(r"^inherited\d+__", "", p) for p in x["params"]] for x in dump["classes"]}
                cn = clause.split(":", 1)[1] if clause.startswith("ctor:") else None
                devr = {d["name"]: d["params"] for d in c.get("pyredecl", [])}
                if cn in devp and got.get(cn) == devp[cn]:
                    key = "dev:Dev_PyCtorRepeatsSharedAncestor"
                elif cn in devr and got.get(cn) == devr[cn]:
                    key = "dev:Dev_PyRedeclaredIsOwnParameter"
                else:
                    key = "%s|%s" % (clause, key0)
                ctx.violation(key, msg[:500], {"choice": c["choice"], "input": txt, "clause": clause})
    shutil.rmtree(wd, ignore_errors=True)
    cov = {"programs": n, "disagreements_checked": n * 8, "disagreements_found": dis, "samples": samples,
           "states": g.distinct, "evaluations": n, "distinct_nontrivial": n,
           "rule": "single-schema members of the valid family; generate, compile, import, compare classes (bases, constructor "
                   "parameters) and type definitions with PyModule(s)"}
    return {"level": "translation_validation", "coverage": cov, "assumptions": [
        "enumeration items are compared as a set (the statement does not demand their order)",
        "constructor parameters are compared after stripping the generator's inherited<k>__ prefix"]}

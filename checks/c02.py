"""C02 - generated C++ dictionary and classes mirror the EXPRESS schema.

spec/Schema.tla defines Dictionary(s) (entities with supertypes, subtypes, abstractness, explicit / derived /
inverse attributes in declaration order with name, optionality, type; defined types with underlying type, items,
members, aggregate kind / bounds / flags) and AttrOrder(s, e) (Part 21 order).  TLC checks AttrOrder's sanity on the
whole family.  For every schema of the family the real exp2cxx output is compiled (a compile error is a
violation), linked with harness/cpp/dictdump.cc, and the run-time dictionary and the attribute list of a freshly
created instance of every entity are compared with Dictionary(s) / AttrOrder.
"""
import concurrent.futures as cf
import json
import os
import re
import subprocess

from checks import frontend_common as fc
from vf import accprobe, build, express
from vf.common import VERIF, sha

DUMP = os.path.join(VERIF, "harness", "cpp", "dictdump.cc")


def norm(t):
    return re.sub(r"\s+", "", t).lower()


def ty_text(t):
    return norm(express.typeref(t))


def flags(t, g, where, out):
    """structural comparison of an aggregate typeref with the dictionary's descriptor: kind, bounds, UNIQUE, OPTIONAL,
    recursively for aggregates of aggregates (the printed type text is compared separately)"""
    if t["agg"] == "none":
        return
    if not g or not g.get("agg"):
        out.append(("aggregate-flags", "%s: the dictionary holds no aggregate descriptor (%s), declared %s" % (where, g, express.typeref(t))))
        return
    hi = g["hi"] if g["hi"] < 2147483647 else -1
    got = (g["agg"], g["lo"], hi, g["uniq"], g["optelem"])
    want = (t["agg"], t["lo"], t["hi"], t["uniq"], t["optelem"])
    if got != want:
        out.append(("aggregate-flags", "%s: descriptor (kind, lo, hi, UNIQUE, OPTIONAL) = %s, declared %s = %s" % (where, got, express.typeref(t), want)))
    if "inner" in t:
        flags(t["inner"], g.get("elem"), where + " element", out)


def compare(c, dump):
    """-> list of (clause, message)"""
    out = []
    D = c["dict"]
    ents = {e["name"].lower(): e for e in dump["entities"]}
    want_names = [e["name"] for e in D["entities"]]
    if sorted(ents) != sorted(n.lower() for n in want_names):
        out.append(("entities", "dictionary has entities %s, schema %s" % (sorted(ents), sorted(want_names))))
    for k, e in enumerate(D["entities"]):
        g = ents.get(e["name"].lower())
        if not g:
            continue
        if g["abstract"] != e["abstract"]:
            out.append(("abstract", "%s: abstract %s, declared %s" % (e["name"], g["abstract"], e["abstract"])))
        if [x.lower() for x in g["supers"]] != [x.lower() for x in e["supers"]]:
            out.append(("supertypes", "%s: supertypes %s, declared %s" % (e["name"], g["supers"], e["supers"])))
        if sorted(x.lower() for x in g["subs"]) != sorted(x.lower() for x in e["subs"]):
            out.append(("subtypes", "%s: subtypes %s, schema %s" % (e["name"], g["subs"], e["subs"])))
        gx = [(a["name"].lower(), a["opt"], norm(a["type"])) for a in g["attrs"] if a["kind"] == "explicit"]
        wx = [(a["name"].lower(), a["opt"], ty_text(a["ty"])) for a in e["attrs"]]
        if gx != wx:
            out.append(("explicit-attrs", "%s: explicit attributes %s, declared %s" % (e["name"], gx, wx)))
        else:
            for ga, wa in zip([a for a in g["attrs"] if a["kind"] == "explicit"], e["attrs"]):
                flags(wa["ty"], ga.get("ty"), "%s.%s" % (e["name"], wa["name"]), out)
        # redeclared attributes: the dictionary lists them with the entity that redeclares them, under the inherited
        # name (the generator may spell it qualified: SELF\\e2.b1) and with the new type
        gr = [(a["name"].lower().split(".")[-1], norm(a["type"])) for a in g["attrs"] if a["kind"] == "redefining"]
        wr = [(a["name"].lower(), ty_text(a["ty"])) for a in e.get("redeclared", [])]
        if gr != wr:
            out.append(("redeclared-attrs", "%s: redeclared attributes %s, declared %s" % (e["name"], [(a["name"], a["kind"], a["type"]) for a in g["attrs"] if a["kind"] not in ("explicit", "derived")], wr)))
        # (a derived redeclaration SELF\\e3.c1 is compared by the inherited name)
        gd = [(a["name"].lower().split(".")[-1], norm(a["type"])) for a in g["attrs"] if a["kind"] == "derived"]
        wd = [(a["name"].lower().split(".")[-1], ty_text(a["ty"])) for a in e["derived"]]
        if gd != wd:
            out.append(("derived-attrs", "%s: derived attributes %s, declared %s" % (e["name"], gd, wd)))
        gi = [(a["name"].lower(), a["ent"].lower(), a["attr"].lower(), a["setof"]) for a in g["inverse"]]
        wi = [(a["name"].lower(), a["ent"].lower(), a["attr"].lower(), a["setof"]) for a in e["inverse"]]
        if gi != wi:
            out.append(("inverse-attrs", "%s: inverse attributes %s, declared %s" % (e["name"], gi, wi)))
        order = [(o["owner"].lower(), o["name"].lower()) for o in c["order"][k]]
        if e["abstract"]:
            pass      # an abstract entity may refuse instantiation
        elif not g["instance"]:
            out.append(("instance", "%s: ObjCreate returned nothing" % e["name"]))
        else:
            gi2 = [(a["owner"].lower(), a["name"].lower()) for a in g["instance"]["attrs"] if a["kind"] == "explicit"]
            if gi2 != order:
                out.append(("part21-order", "%s: instance attributes %s, AttrOrder %s" % (e["name"], gi2, order)))
    types = {t["name"].lower(): t for t in dump["types"]}
    for t in D["types"]:
        g = types.get(t["name"].lower())
        if not g:
            out.append(("type-missing:" + t["name"], "defined type %s has no dictionary entry" % t["name"]))
            continue
        if t["k"] == "enum" and [x.lower() for x in g.get("items", [])] != [x.lower() for x in t["items"]]:
            out.append(("enum-items", "%s: items %s, declared %s" % (t["name"], g.get("items"), t["items"])))
        if t["k"] == "select" and [x.lower() for x in g.get("members", [])] != [x.lower() for x in t["members"]]:
            out.append(("select-members", "%s: members %s, declared %s" % (t["name"], g.get("members"), t["members"])))
        if t["k"] == "simple" and g["ref"].lower() != t["base"]["base"].lower():
            out.append(("underlying", "%s: underlying %s, declared %s" % (t["name"], g["ref"], t["base"]["base"])))
        if t["k"] == "aggr":
            a = g.get("aggr")
            b = t["base"]
            kind = g["desc"].split()[0].upper() if g["desc"] else ""
            if not a or (a["lo"], a["hi"] if a["hi"] < 2147483647 else -1, a["uniq"], a["optelem"]) != (b["lo"], b["hi"], b["uniq"], b["optelem"]) or kind != b["agg"]:
                out.append(("aggregate", "%s: %s %s, declared %s" % (t["name"], kind, a, express.typeref(b))))
            flags(b, g.get("ty"), "TYPE " + t["name"], out)
        # a renamed type names its underlying type either as the referent descriptor or in its description text
        if t["k"] == "rename" and g["ref"].lower() != t["base"]["base"].lower() and \
                not re.match(r"type%s=%s(--.*)?$" % (t["name"].lower(), t["base"]["base"].lower()), norm(g["desc"])):
            out.append(("underlying", "%s: renames %s, declared %s" % (t["name"], g["ref"], t["base"]["base"])))
    extra = sorted(set(types) - {t["name"].lower() for t in D["types"]})
    if extra:
        out.append(("types-extra", "dictionary has types the schema does not declare: %s" % extra))
    return out


def run(ctx):
    bdir = build.core("plain")
    cases, g = fc.gen(ctx, with_mutants=False)
    cases = [c for c in cases if not c["schema"]["aux"]]      # the statement quantifies over single-schema inputs
    if ctx.quick:
        cases = fc.stratify(cases)
    n = dis = 0
    nacc = [0]
    generic_only = []
    samples = []

    def one(a):
        i, c = a
        txt = express.render(c["schema"])
        tag = "c02_" + sha(txt)[:10]
        try:
            s = build.schema_lib(tag, txt)
            d = build.link_driver("dictdump_" + tag, [DUMP], schema=s)
        except build.BuildFailure as ex:
            return i, c, txt, None, str(ex)[-1500:]
        p = subprocess.run([d], stdout=subprocess.PIPE, stderr=subprocess.PIPE, text=True, timeout=120)
        if p.returncode != 0:
            return i, c, txt, None, "dictdump rc=%s %s" % (p.returncode, p.stderr[-800:])
        dump = json.loads(p.stdout)
        # typed accessors and mutators of every explicit attribute (simple, enumeration and entity valued)
        src, nacc = accprobe.program(c["schema"], c["order"])
        pdir = os.path.join(build.WORK, "accprobe")
        os.makedirs(pdir, exist_ok=True)
        pf = os.path.join(pdir, "probe_%s.cc" % tag)
        open(pf, "w").write(src)
        try:
            pd = build.link_driver("accprobe_" + tag, [pf], schema=s)
        except Exception as ex:      # the probe uses only the generated public interface: not compiling is the generator's doing
            dump["accessors"] = [{"ent": "-", "attr": "-", "kind": "probe-does-not-compile", "r1": False, "r2": False, "g1": False, "g2": False,
                                  "why": str(ex)[-600:]}]
            return i, c, txt, dump, ""
        q = subprocess.run([pd], stdout=subprocess.PIPE, stderr=subprocess.PIPE, text=True, timeout=120)
        acc = []
        for ln in q.stdout.split("\n"):
            if ln.strip():
                try:
                    acc.append(json.loads(ln))
                except ValueError:
                    acc.append({"ent": "-", "attr": "-", "kind": "unreadable-line", "r1": False, "r2": False, "g1": False, "g2": False, "why": ln[:200]})
        if q.returncode != 0:
            acc.append({"ent": "-", "attr": "-", "kind": "probe-died", "r1": False, "r2": False, "g1": False, "g2": False, "why": "rc=%s %s" % (q.returncode, q.stderr[-300:])})
        dump["accessors"] = acc
        dump["accessors_expected"] = nacc + 1
        return i, c, txt, dump, ""
    with cf.ThreadPoolExecutor(max_workers=4) as ex:
        for i, c, txt, dump, err in ex.map(one, list(enumerate(cases))):
            n += 1
            key0 = json.dumps(c["choice"], sort_keys=True)
            if dump is None:
                ctx.violation("build|" + key0, "generated code does not compile / run: " + err[-300:], {"choice": c["choice"], "input": txt, "error": err})
                continue
            if not samples:
                samples.append({"choice": c["choice"], "dictionary_entity": dump["entities"][0]})
            nacc[0] += len(dump.get("accessors", []))
            for a in dump.get("accessors", []):
                if a["r1"] and a["r2"] and not (a["g1"] and a["g2"]):
                    # the statement demands that the accessor reads back what the mutator stored; that the generic
                    # attribute list sees the same storage is more than it says: recorded, not judged
                    generic_only.append("%s.%s (%s): %r, %r" % (a["ent"], a["attr"], a["kind"], a.get("s1"), a.get("s2")))
                    continue
                if not (a["r1"] and a["r2"]):
                    dis += 1
                    what = "typed read-back"
                    ctx.violation("accessor|%s|%s|%s" % (a["kind"], what, a["attr"] if a["kind"].startswith(("simple", "enum", "entity")) else "-"),
                                  "%s.%s (%s): the %s after the typed mutator is wrong (first value ok: %s, second: %s; generic view: %r, %r) %s" % (
                                      a["ent"], a["attr"], a["kind"], what, a["r1"], a["r2"], a.get("s1"), a.get("s2"), a.get("why", "")),
                                  {"choice": c["choice"], "input": txt, "record": a})
            if len(dump.get("accessors", [])) < dump.get("accessors_expected", 0):
                ctx.violation("accessor|missing-lines|" + key0, "the accessor probe printed %d of %d records" % (len(dump.get("accessors", [])), dump["accessors_expected"]),
                              {"choice": c["choice"], "input": txt})
            for clause, msg in compare(c, dump):
                dis += 1
                devs = {d["name"]: d["dev"] for d in c["devtypes"]}
                if clause.startswith("type-missing:") and clause.split(":", 1)[1] in devs:
                    key = "dev:" + devs[clause.split(":", 1)[1]]
                else:
                    key = "%s|%s" % (clause, key0)
                ctx.violation(key, msg[:500], {"choice": c["choice"], "input": txt, "clause": clause})
    cov = {"programs": n, "accessor_records": nacc[0],
           "observed_outside_the_statement": {"typed_mutator_not_visible_in_generic_attribute_list": sorted(set(generic_only))[:12]}, "disagreements_checked": n * 12, "disagreements_found": dis, "samples": samples,
           "states": g.distinct, "evaluations": n, "distinct_nontrivial": n,
           "rule": "valid schema family of spec/Schema.tla (chains, fans, multiple supertypes, every attribute kind, "
                   "enum/select/simple/aggregate/renamed types, DERIVE/INVERSE); 12 dictionary clauses per schema"}
    return {"level": "translation_validation", "coverage": cov, "assumptions": [
        "type names are compared case-insensitively and without white space",
        "typed accessors / mutators are called for simple, enumeration and entity valued attributes (own and inherited); "
        "aggregate and SELECT valued attributes are covered through the dictionary comparison and the round trip of C01"]}

"""Shared engine of C04 and C20: schemas and mutants from spec/Schema_Gen.tla -> the four EXPRESS tools ->
spec/FrontEnd_Trace.tla."""
import concurrent.futures as cf
import json
import os
import shutil
import subprocess

from vf import build, diag, express, tlc
from vf.common import InfraError, mkdir

TOOLS = ["check-express", "exppp", "exp2cxx", "exp2python"]


def gen(ctx, with_mutants=True):
    cases = []
    g = tlc.run_tlc("Schema_Gen", None, workers=4, timeout=900, on_case=cases.append,
                    cfg_text="CONSTANTS Deep = %s WithMutants = %s\nINIT Init\nNEXT Next\nINVARIANT Emit\nINVARIANT OrderSane\n"
                             % ("FALSE" if ctx.quick else "TRUE", "TRUE" if with_mutants else "FALSE"))
    if g.violated:
        ctx.violation("design|" + ",".join(g.violated), "Schema!AttrOrder fails its sanity invariant", {"tlc": g.tail[-30:]})
    elif g.rc != 0 or g.errors:
        raise InfraError("Schema_Gen failed: %s" % g.tail[-10:])
    cases.sort(key=lambda c: json.dumps(c["choice"], sort_keys=True))
    return cases, g


def run_tool(bdir, tool, path, wd, opts=()):
    """run one tool in a fresh directory; returns (rc, stderr, nfiles created)"""
    d = mkdir(wd)
    try:
        p = subprocess.run([os.path.join(bdir, "bin", tool)] + list(opts) + [path], cwd=d, stdout=subprocess.PIPE,
                           stderr=subprocess.PIPE, timeout=120)
        rc, err = p.returncode, p.stderr.decode("latin-1")
    except subprocess.TimeoutExpired:
        rc, err = 124, ""
    n = sum(len(f) for _, _, f in os.walk(d))
    shutil.rmtree(d, ignore_errors=True)
    return rc, err, n


def stratify(cases, per=1):
    """quick-tier selection: `per` schemas of every stratum (inheritance shape x type shape x naming), the other
    choices taken from the middle of the stratum"""
    strata = {}
    for c in sorted(cases, key=lambda c: json.dumps(c["choice"], sort_keys=True)):
        ch = c["choice"]
        strata.setdefault((ch["inh"], ch["ts"]["k"], ch["ts"].get("of", ""), ch.get("nm", "")), []).append(c)
    out = []
    for k in sorted(strata):
        v = strata[k]
        mid = len(v) // 2
        out.extend(v[mid:mid + per])
    return out


def inputs(ctx, cases, wd):
    """[(tag, path, expect, mutant or None, schema case)] - files written under wd/in"""
    ind = mkdir(os.path.join(wd, "in"))
    out = []
    for i, c in enumerate(cases):
        p = os.path.join(ind, "v%d.exp" % i)
        open(p, "w", encoding="latin-1").write(express.render(c["schema"]))
        out.append(("v%d" % i, p, "valid", None, c))
        muts = sorted(c["mutants"], key=lambda m: (m["class"], m.get("stretch", 0), m["at"], m.get("pos", "")))
        if ctx.quick:
            # every class on every schema, one position each (rotating with the schema's index)
            bycl = {}
            for m in muts:
                bycl.setdefault((m["class"], m.get("stretch", 0)), []).append(m)
            muts = [ms[i % len(ms)] for cl, ms in sorted(bycl.items())]
        for k, m in enumerate(muts):
            p = os.path.join(ind, "m%d_%d.exp" % (i, k))
            open(p, "w", encoding="latin-1").write(express.mutate(c["schema"], m))
            if m.get("stretch"):      # downstream the offending lexeme is the stretched one
                m = dict(m, lexeme=m["lexeme"] + "x" * m["stretch"], **{"class": m["class"] + "_long%d" % m["stretch"]})
            out.append(("m%d_%d" % (i, k), p, "valid" if m["class"].startswith("argcount") else "fault", m, c))
    return out


def token_bases(cases, n):
    """the schemas whose single-token mutants are taken: the richest of the family first (rules, second schema,
    multiple inheritance), then one per type shape"""
    def rank(c):
        ch = c["choice"]
        return (-int(ch["rules"]), -int(ch["aux"]), {"multi": 0, "nestedmi": 1, "chain": 2}.get(ch["inh"], 3), -ch["ak"],
                json.dumps(ch, sort_keys=True))
    rich = [c for c in sorted(cases, key=rank) if "nm" not in c["choice"] and c["choice"]["ts"]["k"] == "base"]
    shapes = [c for c in stratify(cases) if c["choice"]["ts"]["k"] != "base"]
    out = rich[:max(1, n // 2)]
    for c in shapes[:: max(1, len(shapes) // max(1, n - len(out)))]:
        if len(out) < n:
            out.append(c)
    return out


def token_inputs(ctx, cases, wd, n, n_ins=0, extra=()):
    """[(tag, path, expect, mutant, schema case)] - every single-token mutant (spec/TokMut.tla) of n schemas of the
    family.  expect is "valid" for the re-spaced original, "fault" for an undeclared name at a using position and
    "any" otherwise (the verdict is not prescribed, everything else is).  The first n_ins schemas also get every
    insertion of a punctuation / comment-bracket token at every position"""
    from vf import tokmut
    ind = mkdir(os.path.join(wd, "in"))
    out = []
    bases = [(c, express.render(c["schema"])) for c in token_bases(cases, n)]
    # texts outside the family (extra: [(name, text)]): constructs the family does not have
    bases += [({"choice": {"host": name}, "schema": None, "mutants": []}, text) for name, text in extra]
    for b, (c, text) in enumerate(bases):
        for k, m in enumerate(tokmut.mutants(text, ctx.work, with_ins=b < n_ins)):
            p = os.path.join(ind, "k%d_%d.exp" % (b, k))
            open(p, "w", encoding="latin-1").write(m["text"])
            mm = {"class": "tok_" + m["op"], "at": "", "pos": "[%s]@%s" % (m["tok"], m["ctx"]), "lexeme": "", "code": "", "stretch": 0}
            out.append(("k%d_%d" % (b, k), p, m["expect"], mm, c))
    return out


def validate(ctx, lines, wd):
    tp = os.path.join(wd, "trace.ndjson")
    chunks = [lines[i:i + 6000] for i in range(0, len(lines), 6000)]
    # chunk boundaries must fall on Input events
    merged, cur = [], []
    for ln in lines:
        if ln.startswith('{"e": "Input"') and len(cur) > 5000:
            merged.append(cur)
            cur = []
        cur.append(ln)
    if cur:
        merged.append(cur)

    def val(a):
        k, ls = a
        tp = os.path.join(wd, "trace%d.ndjson" % k)
        open(tp, "w").write("\n".join(ls) + "\n")
        got = []
        r = tlc.run_tlc("FrontEnd_Trace", "FrontEnd_Trace.cfg", workers=1, timeout=900, env={"TRACE": tp}, on_case=got.append)
        if r.rc != 0 or r.post_violated or r.errors:
            raise InfraError("FrontEnd_Trace did not consume the record: rc=%s %s" % (r.rc, r.tail[-12:]))
        return got
    out = []
    with cf.ThreadPoolExecutor(max_workers=6) as ex:
        for g in ex.map(val, list(enumerate(merged))):
            out.extend(g)
    return out

"""C10 - the lazy loader sees the same file as the eager reader.

D: spec/LazyLoad.tla (the recursive load as the code performs it) is model checked: on acyclic reference graphs it
   terminates without re-entry and loads exactly the dependency closure; on graphs with a cycle TLC exhibits the
   re-entry (design-level form of known finding F-10a).
G+V: populations from spec/Lazy_Gen.tla (plain family) are rendered in several spellings, scanned and loaded by the
   real lazyInstMgr in ascending/descending order, each instance twice; index, forward and reverse tables,
   dependency sets and the serialisation of every loaded instance (against the eager STEPfile read of the same
   file) are judged by TLC with spec/Lazy_Trace.tla.
"""
from checks import lazy_common
from vf import tlc


def run(ctx):
    cov = {}
    d = tlc.check_design("LazyLoad_MC", "LazyLoad_MC.cfg", workers=8, timeout=900)
    for v in d.violated:
        ctx.violation("design|" + v, "LazyLoad (acyclic graphs) violates %s" % v, {"tlc": d.tail[-30:]})
    d2 = tlc.check_design("LazyLoad_MC", "LazyLoad_MC_cyclic.cfg", workers=8, timeout=900)
    for v in d2.violated:
        ctx.violation("design|cyclic|" + v, "LazyLoad (graphs with cycles) violates %s" % v, {"tlc": d2.tail[-30:]})
    checked = ["NoReentry", "QuietIsComplete", "LoadsClosure", "InverseExact", "Terminates"]
    cov["design"] = {"module": "LazyLoad_MC", "acyclic": {"instances": 4, "states": d.distinct, "checked": checked},
                     "cyclic": {"instances": 3, "states": d2.distinct, "checked": checked}}
    r = lazy_common.run_family(ctx, "plain", ["index", "fwd", "rev", "deps", "load-differs", "crash"])
    # the inverse family is loaded too: same clauses (its inverse attributes are C11's business)
    r2 = lazy_common.run_family(ctx, "inv", ["index", "fwd", "rev", "deps", "load-differs", "crash"])
    for k in ("populations", "sessions", "events", "reports", "loads_judged_in_full", "loads_under_known_reentrancy"):
        r[k] += r2[k]
    cov.update({"states": d.distinct + d2.distinct, "transitions": d.generated + d2.generated,
                "traces_validated_against_impl": r["sessions"], "exhaustive": True,
                "loads_judged_in_full": r["loads_judged_in_full"], "loads_under_known_reentrancy": r["loads_under_known_reentrancy"],
                "populations": r["populations"], "events": r["events"], "disagreeing_events": r["reports"],
                "samples": r["samples"], "evaluations": r["sessions"], "distinct_nontrivial": r["populations"],
                "rule": "two PNODEs with every nxt link (none/self/other) x a PHOLDER or complex referrer with every "
                        "reference pattern (empty, single, both orders, duplicate) x file order x id set; spelling "
                        "variants (spaces, comment containing '#', strings containing '#(;') by seed"})
    return {"level": "model_checking", "coverage": cov, "assumptions": [
        "forward/reverse tables are compared as relations (multiplicity of repeated references is not demanded)",
        "membership of an instance in its own dependency set (cycles) is not constrained",
        "the entity keyword of a complex instance in the index is not constrained"]}

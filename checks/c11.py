"""C11 - inverse attributes resolved on load contain exactly the real referrers.

spec/Lazy.tla defines, for every INVERSE declaration of schemas/lazy.exp, Referrers(P, x, decl): the instances of the
inverted entity or a subtype whose inverted attribute holds x.  Populations from spec/Lazy_Gen.tla (inverse family:
set-valued, subtype referrer, inherited, single-valued, two inverse attributes on one entity; references through
the inverted attribute, through another attribute, twice) are loaded by the real lazyInstMgr; the inverse
attributes found on every loaded instance are judged by TLC (spec/Lazy_Trace.tla: none missing, none extra, none
twice).
"""
from checks import lazy_common
from vf import tlc


def run(ctx):
    cov = {}
    d = tlc.check_design("Lazy_MC", "Lazy_MC.cfg", workers=4, timeout=600)
    for v in d.violated:
        ctx.violation("design|" + v, "Lazy violates %s" % v, {"tlc": d.tail[-30:]})
    r = lazy_common.run_family(ctx, "inv", ["inverse", "crash"], each=True)
    cov.update({"states": d.distinct, "transitions": d.generated,
                "design": {"module": "Lazy_MC", "checked": ["InverseIsTransposeOfInvertedAttr", "SingleValuedAtMostOne"]},
                "traces_validated_against_impl": r["sessions"], "exhaustive": True,
                "loads_judged_in_full": r["loads_judged_in_full"], "loads_under_known_reentrancy": r["loads_under_known_reentrancy"],
                "populations": r["populations"], "events": r["events"], "disagreeing_events": r["reports"],
                "samples": r["samples"], "evaluations": r["sessions"], "distinct_nontrivial": r["populations"],
                "rule": "inverse-family populations: 2 targets x 2 referrers with every reference pattern through the "
                        "inverted and the other attribute; single-valued and two-inverse-attribute shapes"})
    return {"level": "model_checking", "coverage": cov, "assumptions": [
        "populations are conforming: a single-valued inverse has at most one referrer"]}

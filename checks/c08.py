"""C08 - complex instances are accepted exactly when supertype constraints allow them.

spec/Complex.tla defines Legal(shape, S) clause by clause from the statement.  TLC (spec/Complex_Gen.tla) enumerates
schema shapes (every ONEOF/AND/ANDOR tree of depth <= 2 over the subtypes, unmentioned subtypes, ABSTRACT roots,
two-level trees, a diamond, abstract chains) and for each every non-empty part set with its verdict.  All shapes
are batched into one EXPRESS schema (one exp2cxx run + compile), every part set is written as an externally mapped
instance in two part orders, read by the real STEPfile, and "instance created" is compared with Legal; refusals must
not affect the other instances of the file.
"""
import concurrent.futures as cf
import json
import os
import shutil

from vf import complexb, sess, tlc
from vf.common import InfraError, mkdir


def euler_pairs(n):
    """a closed walk over nodes 0..n-1 in which every ordered pair (a, b), a = b included, occurs as neighbours"""
    nxt = [0] * n
    stack, out = [0], []
    while stack:
        v = stack[-1]
        if nxt[v] < n:
            w = nxt[v]
            nxt[v] += 1
            stack.append(w)
        else:
            out.append(stack.pop())
    return out[::-1]


def run(ctx):
    cov = {}
    shapes = []
    g = tlc.run_tlc("Complex_Gen", None, workers=4, timeout=900, on_case=shapes.append,
                    cfg_text="CONSTANTS Deep = %s\nINIT Init\nNEXT Next\nINVARIANT Emit\nINVARIANT Sane\n"
                             % ("FALSE" if ctx.quick else "TRUE"))
    if g.violated:
        ctx.violation("design|" + ",".join(g.violated), "Complex!Legal fails its sanity invariant", {"tlc": g.tail[-30:]})
    elif g.rc != 0 or g.errors:
        raise InfraError("Complex_Gen failed: %s" % g.tail[-10:])
    shapes.sort(key=lambda s: json.dumps(s["shape"], sort_keys=True))
    cov["states"], cov["transitions"] = g.distinct, g.generated
    drv, schema = complexb.driver([s["shape"] for s in shapes])
    wd = os.path.join(ctx.work, "s")
    shutil.rmtree(wd, ignore_errors=True)
    mkdir(wd)
    # one file per shape: every case in two part orders
    files = {}
    for i, sh in enumerate(shapes):
        insts, n = [], 0
        for k, c in enumerate(sorted(sh["cases"], key=lambda c: (len(c["s"]), c["s"]))):
            for order in ("sorted", "rev"):
                if order == "rev" and len(c["s"]) == 1:
                    continue
                n += 1
                insts.append((n, complexb.instance_text(i, c["s"], order, k), c, order))
        files[i] = insts

    def run_files(items, sub):
        scripts = []
        for tag, insts in items:
            f = os.path.join(wd, "f%s.p21" % tag)
            open(f, "w").write(complexb.file_text([(n, t) for n, t, c, o in insts]))
            scripts.append((tag, ["new 0", "read " + f, "states"]))
        return sess.run_scripts(drv, scripts, mkdir(os.path.join(wd, sub)), timeout=300)

    def judge(i, insts, r, alone):
        """compare creation with Legal for the instances of one file; returns list of crashed (for retry)"""
        st = [x for x in r if x.get("cmd") == "states"]
        if not st:
            return False
        created = {x[0] for x in st[0]["list"]}
        for n, text, c, order in insts:
            if c.get("free"):
                counts["free"] = counts.get("free", 0) + 1
                continue
            ok = (n in created) == c["legal"]
            counts["judged"] += 1
            if not ok:
                sh = shapes[i]["shape"]
                kind = "refused-though-legal" if c["legal"] else "created-though-illegal"
                key = "dev:" + c["dev"] if c.get("dev") else "%s|%s|%s|%s" % (kind, shape_brief(sh), "+".join(sorted(c["s"])), order)
                ctx.violation(key,
                              "%s: parts {%s} (%s order) under %s" % (kind, ",".join(sorted(c["s"])), order, shape_brief(sh)),
                              {"shape": sh, "parts": c["s"], "order": order, "legal": c["legal"], "instance": text,
                               "schema": complexb.schema_text([sh]), "alone": alone})
        return True

    def shape_brief(sh):
        return "; ".join("%s%s%s%s" % (e, " ABSTRACT" if e in sh["abstract"] else "",
                                       " SUPERTYPE OF " + complexb.expr_text(sh["expr"][e], "") if sh["expr"][e]["k"] != "none" else "",
                                       " SUBTYPE OF (" + ",".join(sorted(sh["supers"][e])) + ")" if sh["supers"][e] else "")
                         for e in sh["ents"])

    counts = {"judged": 0, "crashes": 0}
    res = {}
    items = [(str(i), files[i]) for i in files]
    with cf.ThreadPoolExecutor(max_workers=8) as ex:
        for r in ex.map(lambda k: run_files(items[k:k + 6], "b%d" % k), range(0, len(items), 6)):
            res.update(r)
    retry = []
    for i in files:
        if not judge(i, files[i], res.get(str(i), []), False):
            retry.append(i)
    # a shape file that killed the reader: one file per instance, to localise
    single = []
    for i in retry:
        for n, text, c, order in files[i]:
            single.append(("%d_%d" % (i, n), [(n, text, c, order)]))
    res2 = {}
    with cf.ThreadPoolExecutor(max_workers=8) as ex:
        for r in ex.map(lambda k: run_files(single[k:k + 1], "r%d" % k), range(0, len(single))):
            res2.update(r)
    for tag, insts in single:
        i = int(tag.split("_")[0])
        if not judge(i, insts, res2.get(tag, []), True):
            n, text, c, order = insts[0]
            counts["crashes"] += 1
            sh = shapes[i]["shape"]
            crash = [x for x in res2.get(tag, []) if x.get("cmd") == "crash"]
            ctx.violation("crash|%s|%s|%s" % (shape_brief(sh), "+".join(sorted(c["s"])), order),
                          "reader died (rc %s) on parts {%s} (%s order, %s) under %s" % (
                              crash[0]["rc"] if crash else "?", ",".join(sorted(c["s"])), order,
                              "legal" if c["legal"] else "illegal", shape_brief(sh)),
                          {"shape": sh, "parts": c["s"], "order": order, "legal": c["legal"], "instance": text,
                           "schema": complexb.schema_text([sh])})
    # Complex!HistoryFree: every ordered pair of part sets of a shape adjacent in one file (an Euler circuit of the
    # complete directed graph over the part sets); shapes with many part sets: seeded shuffles instead
    import random
    seqfiles = {}
    npairs = 0
    for i, sh in enumerate(shapes):
        cs = sorted(sh["cases"], key=lambda c: (len(c["s"]), c["s"]))
        n = len(cs)
        if n <= 130:
            order = euler_pairs(n)
            npairs += n * n
        else:
            rnd = random.Random(ctx.seed * 1000 + i)
            order = []
            for _ in range(3 if ctx.quick else 12):
                o = list(range(n))
                rnd.shuffle(o)
                order += o
            npairs += len(order)
        seqfiles[i] = [(k + 1, complexb.instance_text(i, cs[j]["s"], "sorted" if k % 2 else "rev", k), cs[j], "seq") for k, j in enumerate(order)]
    items = [("q%d" % i, seqfiles[i]) for i in seqfiles]
    res3 = {}
    with cf.ThreadPoolExecutor(max_workers=8) as ex:
        for r in ex.map(lambda k: run_files(items[k:k + 4], "q%d" % k), range(0, len(items), 4)):
            res3.update(r)
    for i in seqfiles:
        if not judge(i, seqfiles[i], res3.get("q%d" % i, []), False) and i not in retry:
            sh = shapes[i]["shape"]
            counts["crashes"] += 1
            ctx.violation("crash-in-sequence|%s" % shape_brief(sh), "reader died on a file with %d externally mapped instances under %s "
                          "(each of them alone is read without a crash)" % (len(seqfiles[i]), shape_brief(sh)),
                          {"shape": sh, "schema": complexb.schema_text([sh]),
                           "file": complexb.file_text([(n, t) for n, t, c, o in seqfiles[i]])[:20000],
                           "result": [x for x in res3.get("q%d" % i, []) if x.get("cmd") == "crash"]})
    shutil.rmtree(wd, ignore_errors=True)
    ncases = sum(len(s["cases"]) for s in shapes)
    cov.update({"traces_validated_against_impl": counts["judged"], "exhaustive": True, "shapes": len(shapes),
                "part_sets": ncases, "ordered_pairs_in_sequence": npairs, "instances_judged": counts["judged"], "reader_crashes": counts["crashes"],
                "samples": [{"shape": shapes[0]["shape"], "cases": shapes[0]["cases"][:4]}],
                "evaluations": counts["judged"], "distinct_nontrivial": ncases,
                "rule": "every shape x every non-empty subset of its entities x two part orders, then every ordered pair of part sets adjacent in one file; distinct by construction"})
    return {"level": "model_checking", "coverage": cov, "assumptions": [
        "entities carry one OPTIONAL INTEGER attribute each; attribute values do not influence legality",
        "'created' = the instance is present in the instance manager after the read"]}

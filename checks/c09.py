"""C09 - Part 21 literals are read to their value and written in conforming form.

spec/P21Lex.tla holds the token automata of ISO 10303-21 for every simple attribute kind.  TLC (spec/P21Lex_Gen.tla)
enumerates every string up to a length bound over each kind's alphabet (and checks the automaton deterministic);
harness/cpp/attr_drv.cc feeds each to STEPattribute::STEPread of an attribute of that kind of schemas/kinds.exp in
each delimiter context and records severity, the value and the next character.  TLC (spec/P21Lex_Trace.tla)
re-decides grammaticality and judges every record with P21Lex!Verdict; values written back by the library are
checked to be canonical tokens of the grammar that read back to the same value.  A grid of integers around powers
of two and ten and of reals m x 10^e extends the enumeration beyond the length bound.
"""
import concurrent.futures as cf
import json
import math
import os
import shutil
import subprocess

from vf import build, kinds, tlc
from vf.common import VERIF, InfraError, mkdir

DRV = os.path.join(VERIF, "harness", "cpp", "attr_drv.cc")
ALPHA = {
    "int": ["+", "-", "0", "1", "9", ".", "E"],
    "real": ["+", "-", ".", "E", "e", "0", "1", "9"],
    "str": ["'", "\\", "S", "X", "A", "0", "a"],
    "bin": ['"', "0", "3", "4", "A", "F", "g"],
    "enum": [".", "R", "E", "D", "e", "d", "T"],
    "bool": [".", "T", "F", "U", "t", "X"],
    "log": [".", "T", "F", "U", "u", "1"],
    "ref": ["#", "0", "1", "2", "9", "+"],
}
ITEMS = {"enum": {"RED", "GREEN", "BLUE"}, "bool": {"T", "F"}, "log": {"T", "F", "U"}}


def unescape(s):
    """value denoted by the text between the quotes of a Part 21 string (the control directives of P21Lex)"""
    out, i = [], 0
    while i < len(s):
        c = s[i]
        if c == "'" and s[i + 1:i + 2] == "'":
            out.append("'"); i += 2
        elif c == "\\" and s[i + 1:i + 2] == "\\":
            out.append("\\"); i += 2
        elif s[i:i + 3] == "\\S\\" and i + 3 < len(s):
            out.append(chr(ord(s[i + 3]) + 128)); i += 4
        elif s[i:i + 3] == "\\X\\" and i + 4 < len(s):
            out.append(chr(int(s[i + 3:i + 5], 16))); i += 5
        else:
            out.append(c); i += 1
    return "".join(out)


def denote(kind, tok):
    """(representable, canonical value) of a token that is in the grammar (after letter-case normalisation)"""
    if kind == "int":
        v = int(tok)
        return (-2 ** 63 <= v < 2 ** 63 - 1), str(v)
    if kind == "real":
        try:
            v = float(tok)
        except ValueError:
            return False, None
        return math.isfinite(v), v
    if kind == "str":
        return True, unescape(tok[1:-1])
    if kind == "bin":
        return True, tok.strip('"').upper()
    if kind in ITEMS:
        it = tok.strip(".").upper()
        return it in ITEMS[kind], it
    if kind == "ref":
        n = int(tok[1:])
        return n == 1, "#1"
    raise ValueError(kind)


def value_of(kind, r):
    """canonical value the reader ended with (comparable with denote's)"""
    if r["null"]:
        return None
    if kind == "int":
        return r.get("i")
    if kind == "real":
        return float(r["r"]) if "r" in r else None
    if kind == "str":
        return unescape(r["val"][1:-1]) if len(r["val"]) >= 2 else None
    if kind == "bin":
        return r["val"].strip('"').upper()
    if kind in ITEMS:
        return r["val"].strip(".").upper()
    if kind == "ref":
        return r["val"]
    return None


def same(kind, a, b):
    if a is None or b is None:
        return False
    if kind == "real":
        return a == b or (b != 0 and abs(a - b) <= 5e-15 * abs(b))     # 15 significant digits
    return a == b


def run(ctx):
    drv = build.link_driver("attr_drv", [DRV], schema=build.schema_lib("kinds", open(kinds.SCHEMA).read()))
    L = 5 if ctx.quick else 6
    # delimiter contexts: ',' and ')' directly, after blanks, and after a comment of spec/P21Sep.tla (every body in the
    # thorough tier; in the quick tier the bodies whose end could be mistaken: runs of asterisks, a quote, a delimiter)
    from vf import seps
    coms = seps.load()["comments"][:22]
    pick = [c for c in coms if c in ("/***/", "/* x **/", "/*,*/")] if ctx.quick else coms
    ctxs = [(",7);", ","), (");", ")")] + ([] if ctx.quick else [(" ,7);", ","), ("  );", ")")]) + \
           [(c + (",7);" if k % 2 == 0 else ");"), "," if k % 2 == 0 else ")") for k, c in enumerate(pick)]
    tails = {"int": "7", "real": "2.5", "str": "'x'", "bin": '"0"', "enum": ".RED.", "bool": ".T.", "log": ".U.", "ref": "#1"}
    wd = os.path.join(ctx.work, "s")
    shutil.rmtree(wd, ignore_errors=True)
    mkdir(wd)
    states = trans = 0
    toks = {}
    for kind, sigma in ALPHA.items():
        lst = []
        maxlen = L if len(sigma) <= 7 else L - 0
        if kind in ("str",) and not ctx.quick:
            maxlen = L
        cfg = 'CONSTANTS Kind = "%s" Sigma = {%s} MaxLen = %d\nINIT Init\nNEXT Next\nCONSTRAINT Bound\nINVARIANT Emit\nINVARIANT Deterministic\n' % (
            kind, ", ".join(json.dumps(c) for c in sigma), maxlen)
        g = tlc.run_tlc("P21Lex_Gen", None, cfg_text=cfg, workers=8, timeout=1800, on_case=lst.append)
        if g.violated:
            ctx.violation("design|Deterministic|" + kind, "P21Lex automaton for %s is not a function of the string" % kind, {"tlc": g.tail[-20:]})
        elif g.rc != 0 or g.errors:
            raise InfraError("P21Lex_Gen failed for %s: %s" % (kind, g.tail[-10:]))
        states += g.distinct
        trans += g.generated
        toks[kind] = lst
    # grid beyond the length bound (tokens in the grammar by construction; TLC re-decides that in the monitor)
    grid = {"int": [], "real": []}
    for p in range(0, 64, 1 if not ctx.quick else 7):
        for d in (-1, 0, 1):
            for sgn in ("", "-"):
                grid["int"].append(sgn + str(2 ** p + d))
    for p in range(0, 21, 1 if not ctx.quick else 4):
        for d in (-1, 0, 1):
            grid["int"].append(str(10 ** p + d))
    grid["int"] += ["99999999999999999999", "-99999999999999999999", "9223372036854775806", "-9223372036854775808", "9223372036854775808"]
    # LONG_MAX itself is the library's documented in-band null sentinel (excluded by the properties)
    grid["int"] = [x for x in grid["int"] if x != "9223372036854775807"]
    for e in range(-300, 301, 1 if not ctx.quick else 37):
        # boundary mantissas of both signs: shortest, longest (15-17 significant digits), just above 1
        for m in ("1.", "9.999999999999999", "1.0000000000000002", "4.9", "-2.5", "-9.999999999999999", "-1.23456789012345", "-1."):
            grid["real"].append("%sE%d" % (m, e))
    grid["real"] += ["1.0E400", "-1.0E400", "1.E-400", "0.", "-0.", "123456789012345678.", "1.7976931348623E308"]      # (values within 1e-14 of DBL_MAX are excluded)
    reqs = []
    for kind in ALPHA:
        for t in toks[kind]:
            w = "".join(t["w"])
            for tail, delim in ctxs:
                reqs.append((kind, tail.replace("7", tails[kind]) if kind != "int" else tail, delim, w, t["w"]))
        for w in grid.get(kind, []):
            reqs.append((kind, ",%s);" % tails[kind], ",", w, list(w)))
    # run the driver in parallel chunks
    def chunk(k):
        part = reqs[k:k + 20000]
        inp = "".join("%s\t%s\t%s\n" % (kind, tail, w) for kind, tail, delim, w, chars in part)
        p = subprocess.run([drv], input=inp, stdout=subprocess.PIPE, stderr=subprocess.DEVNULL, text=True, timeout=900)
        out = p.stdout.split("\n")
        res = []
        for i in range(len(part)):
            try:
                res.append(json.loads(out[i]))
            except (ValueError, IndexError):
                res.append({"crash": True})
        return k, res
    results = [None] * len(reqs)
    with cf.ThreadPoolExecutor(max_workers=12) as ex:
        for k, res in ex.map(chunk, range(0, len(reqs), 20000)):
            results[k:k + len(res)] = res
    lines, meta = [], []
    written = {}
    for (kind, tail, delim, w, chars), r in zip(reqs, results):
        if r is None or r.get("crash") or "sev" not in r:
            lines.append(json.dumps({"e": "Read", "kind": kind, "w": chars, "delim": delim, "repr": True, "sev": -9, "null": True, "valok": False, "next": "crash"}))
            meta.append((kind, w, tail, r))
            continue
        normtok = w.upper() if kind != "str" else w
        if kind == "ref" and normtok.startswith("#+"):
            normtok = "#" + normtok[2:]
        try:
            rep, dv = denote(kind, normtok)
        except (ValueError, IndexError):
            rep, dv = False, None        # not even normalisable: the monitor's grammar verdict will be "not in grammar"
        got = value_of(kind, r)
        ev = {"e": "Read", "kind": kind, "w": chars, "delim": delim, "repr": bool(rep), "sev": r["esev"], "null": r["null"],
              "valok": same(kind, got, dv), "next": chr(r["next"]) if 0 <= r["next"] < 256 else "eof"}
        lines.append(json.dumps(ev))
        meta.append((kind, w, tail, r))
        if not r["null"] and r["esev"] >= 2 and (kind, r["val"]) not in written:
            written[(kind, r["val"])] = got
    # writer: every distinct written form must be canonical and read back to the same value
    wl = list(written.items())
    inp = "".join("%s\t%s\t%s\n" % (k, ",%s);" % tails[k], v) for (k, v), got in wl)
    p = subprocess.run([drv], input=inp, stdout=subprocess.PIPE, stderr=subprocess.DEVNULL, text=True, timeout=900)
    back = p.stdout.split("\n")
    for i, ((k, v), got) in enumerate(wl):
        try:
            r2 = json.loads(back[i])
            rb = r2.get("esev", -9) >= 2 and same(k, value_of(k, r2), got)
        except (ValueError, IndexError):
            rb = False
        lines.append(json.dumps({"e": "Write", "kind": k, "w": list(v), "readsback": rb}))
        meta.append((k, v, "", None))
    # monitor
    chunks = [(i, lines[i:i + 9000]) for i in range(0, len(lines), 9000)]

    def val(a):
        start, ls = a
        tp = os.path.join(wd, "t%d.ndjson" % start)
        open(tp, "w").write("\n".join(ls) + "\n")
        out = []
        r = tlc.run_tlc("P21Lex_Trace", "P21Lex_Trace.cfg", workers=1, timeout=1800, env={"TRACE": tp}, on_case=out.append, xmx="3g")
        os.unlink(tp)
        if r.rc != 0 or r.post_violated or r.errors:
            raise InfraError("P21Lex_Trace did not consume the record: rc=%s %s" % (r.rc, r.tail[-12:]))
        for o in out:
            o["g"] = start + o["line"] - 1
        return out
    reports = []
    with cf.ThreadPoolExecutor(max_workers=10) as ex:
        for o in ex.map(val, chunks):
            reports.extend(o)
    for rep in reports:
        kind, w, tail, r = meta[rep["g"]]
        key = "%s|%s|%s" % (rep["what"], kind, w if len(w) <= 24 else w[:10] + ".." + w[-8:])
        if rep["what"] == "delimiter-consumed":
            key = "%s|%s|%s|%r" % (rep["what"], kind, w, tail[:3])
        ctx.violation(key, "%s: %s token %r%s -> severity %s, value %s" % (
            rep["what"], kind, w, " before %r" % tail if tail else "", (r or {}).get("esev"), (r or {}).get("val")),
            {"kind": kind, "token": w, "tail": tail, "reader": r, "event": rep["ev"]})
    shutil.rmtree(wd, ignore_errors=True)
    nread = len(reqs)
    cov = {"states": states, "transitions": trans, "traces_validated_against_impl": len(lines), "exhaustive": True,
           "tokens_read": nread, "written_forms": len(wl), "disagreeing_events": len(reports), "length_bound": L,
           "per_kind": {k: len(v) for k, v in toks.items()},
           "samples": [json.loads(lines[0]), json.loads(lines[len(lines) // 3])],
           "evaluations": nread, "distinct_nontrivial": sum(1 for k in toks for t in toks[k] if t["iso"] or t["normiso"]) + sum(len(v) for v in grid.values()),
           "rule": "every string of length <= %d over each kind's alphabet x delimiter contexts, plus integer / real grids; "
                   "non-trivial = in the grammar (possibly after letter-case normalisation)" % L}
    return {"level": "model_checking", "coverage": cov, "assumptions": [
        "string control directives covered: quote doubling, backslash doubling, \\S\\c, \\X\\hh (not \\X2\\, \\X4\\, \\P)",
        "decimal-to-binary conversion of numerals is taken from Python's float/int (correctly rounded)",
        "NUMBER is read by the same routine as REAL and is exercised through the integer/real grids only"]}

"""C06 - EXPRESS tools are memory-safe and terminate on any input (restricted form).

spec/Bounded.tla models the fixed-capacity tables of the front end (tail-remark buffer, scope stack, diagnostic heap,
...) with the guard each has, is model checked for NoOverflow, and yields the boundary family of every table
(capacity-1, capacity, capacity+1, far beyond).  The corpus = those boundary inputs + the valid schema family and all
single-fault mutants of spec/Schema.tla + byte-level truncations and mutations of a valid schema (+ thorough: the
application-protocol schemas shipped in data/).  Every input is run through the four tools of the ASan+UBSan
build in a child process under a time limit; TLC judges every run with Bounded!SafeRun (no signal, no sanitizer
report, no time-out, exit status 0..2).
"""
import concurrent.futures as cf
import glob
import json
import os
import random
import re
import shutil
import subprocess
import time

from checks import c07, frontend_common as fc
from vf import build, express, tlc
from vf.common import REPO, InfraError, mkdir

TOOLS = ["check-express", "exppp", "exp2cxx", "exp2python"]


def boundary_input(table, n):
    head = "SCHEMA b;\nENTITY e;\n  a : INTEGER;\nEND_ENTITY;"
    if table == "tail_remark":
        return head + " -- " + "r" * n + "\nEND_SCHEMA;\n"
    if table == "embedded_remark":
        return "SCHEMA b;\n(* " + "r" * n + " *)\nENTITY e;\n  a : INTEGER;\nEND_ENTITY;\nEND_SCHEMA;\n"
    if table == "scope_depth":
        return "SCHEMA b;\n" + "".join("FUNCTION f%d(p : INTEGER) : INTEGER;\n" % i for i in range(n)) + "RETURN (p);\n" + \
               "END_FUNCTION;\n" * n + "END_SCHEMA;\n"
    if table == "diagnostics":
        return "SCHEMA b;\nENTITY e;\n" + "".join("  a%d : nosuch_%d;\n" % (i, i) for i in range(n)) + "END_ENTITY;\nEND_SCHEMA;\n"
    if table == "identifier_len":
        return "SCHEMA b;\nENTITY " + "i" * n + ";\n  a : INTEGER;\nEND_ENTITY;\nEND_SCHEMA;\n"
    if table == "string_literal":
        return "SCHEMA b;\nCONSTANT\n  k : STRING := '" + "s" * n + "';\nEND_CONSTANT;\nEND_SCHEMA;\n"
    if table == "rendered_where":
        return "SCHEMA b;\nENTITY e;\n  a : STRING;\nWHERE\n  w : a <> '" + "s" * max(1, n - 20) + "';\nEND_ENTITY;\nEND_SCHEMA;\n"
    if table == "rendered_function":
        body = "".join("  v := v + %d;\n" % (i % 97) for i in range(max(1, n // 14)))
        return "SCHEMA b;\nFUNCTION f(p : INTEGER) : INTEGER;\n  LOCAL\n    v : INTEGER := 0;\n  END_LOCAL;\n" + body + "  RETURN (v);\nEND_FUNCTION;\nEND_SCHEMA;\n"
    if table == "paren_depth":
        return "SCHEMA b;\nENTITY e;\n  a : INTEGER;\nWHERE\n  w : " + "(" * n + "a" + ")" * n + " > 0;\nEND_ENTITY;\nEND_SCHEMA;\n"
    if table in ("rel_depth", "failed_rel_depth"):
        leaf = "a" if table == "rel_depth" else "nosuch_leaf"
        ex = "(%s = 1)" % leaf
        for k in range(n - 1):
            ex = "(%s = (1 = 1))" % ex if k % 2 else "(%s <> FALSE)" % ex
        return head[:-len("END_ENTITY;")] + "DERIVE\n  d : BOOLEAN := %s;\nEND_ENTITY;\nEND_SCHEMA;\n" % ex
    if table == "attr_count":
        return "SCHEMA b;\nENTITY e;\n" + "".join("  a%d : INTEGER;\n" % i for i in range(n)) + "END_ENTITY;\nEND_SCHEMA;\n"
    if table.startswith("degenerate:"):
        ok = "SCHEMA b;\nENTITY e;\n  a : INTEGER;\nEND_ENTITY;\nEND_SCHEMA;"
        cut = "SCHEMA b;\nCONSTANT\n  k : STRING := "
        return {"empty": "", "no_final_newline": ok, "eof_in_tail_remark": ok + " -- tail", "eof_in_remark_after_semicolon": ok[:-1] + "; -- tail",
                "eof_in_string": cut + "'abc", "eof_in_encoded_string": cut + '"0000', "eof_in_embedded_remark": ok + "\n(* open",
                "eof_in_nested_remark": "SCHEMA b;\n(* a (* b *) still open\nENTITY e;", "eof_in_real": "SCHEMA b;\nCONSTANT\n  k : REAL := 1.5E",
                "eof_after_minus": ok + " -", "eof_in_identifier": "SCHEMA b;\nENTITY e;\n  a : INTEGER;\nEND_ENT",
                "nul_bytes": "SCHEMA b;\nENTITY \0e;\n  a : INT\0EGER;\nEND_ENTITY;\0\nEND_SCHEMA;\n\0",
                "binary_noise": "".join(chr((i * 37 + 11) % 256) for i in range(4000)), "only_newlines": "\n" * 300,
                "missing_file": None, "directory": None}[table.split(":")[1]]
    raise ValueError(table)


def run(ctx):
    cov = {}
    d = tlc.check_design("Bounded", "Bounded_MC.cfg", workers=4, timeout=300)
    for v in d.violated:
        ctx.violation("design|" + v, "Bounded violates %s" % v, {"tlc": d.tail[-30:]})
    fam = []
    g = tlc.run_tlc("Bounded_Gen", None, workers=2, timeout=300, on_case=fam.append,
                    cfg_text='CONSTANTS Deep = %s Side = "express"\nINIT GInit\nNEXT GNext\nINVARIANT Emit\n' % ("FALSE" if ctx.quick else "TRUE"))
    if g.rc != 0 or g.errors or not fam:
        raise InfraError("Bounded_Gen failed: %s" % g.tail[-10:])
    bdir = build.core("asan")
    wd = os.path.join(ctx.work, "s")
    shutil.rmtree(wd, ignore_errors=True)
    ind = mkdir(os.path.join(wd, "in"))
    inputs = []       # (tag, path, origin)
    for f in sorted(fam, key=lambda f: (f["table"], f["n"])):
        p = os.path.join(ind, "b_%s_%d.exp" % (f["table"].replace(":", "_"), f["n"]))
        txt = boundary_input(f["table"], f["n"])
        if txt is None:        # not a file: a path that does not exist / a directory
            p = os.path.join(ind, "nosuch.exp") if f["table"].endswith("missing_file") else mkdir(os.path.join(ind, "adir.exp"))
        else:
            open(p, "w", encoding="latin-1").write(txt)
        inputs.append(("boundary:%s:%d" % (f["table"], f["n"]), p, f))
    cases, g2 = fc.gen(ctx)
    cases = fc.stratify(cases)[::2] if ctx.quick else cases[::5]
    for tag, p, expect, m, c in fc.inputs(ctx, cases, wd):
        inputs.append(("%s:%s" % ("mutant:" + m["class"] if m else "valid", tag), p, m))
    # every single-token mutant (deleted, doubled, swapped, undeclared name, misplaced keyword, literal for name) of the
    # richest schemas of the family (spec/TokMut.tla)
    for tag, p, expect, m, c in fc.token_inputs(ctx, fc.gen(ctx, with_mutants=False)[0], wd, 2 if ctx.quick else 8, 1 if ctx.quick else 4, extra=[("statements", c07.statement_host())]):
        inputs.append(("token:%s:%s" % (m["class"], tag), p, m))
    # byte-level truncations and mutations of one valid schema
    # (decorated with the tokens whose end the scanner has to look for: tail and embedded remarks, strings)
    base = express.render(cases[0]["schema"]).replace("END_ENTITY;", "END_ENTITY; -- tail remark", 1)
    at = min(x for x in (base.find("\nTYPE "), base.find("\nENTITY ")) if x >= 0) + 1
    base = (base[:at] + "(* embedded (* nested *) remark *)\nCONSTANT\n  k1 : STRING := 'it''s';\n  k2 : STRING := \"00000041\";\n"
            "  k3 : REAL := 1.5E-3;\nEND_CONSTANT;\n" + base[at:]).encode()
    inputs.append(("valid:decorated", os.path.join(ind, "decorated.exp"), None))
    open(os.path.join(ind, "decorated.exp"), "wb").write(base)
    rnd = random.Random(ctx.seed)
    step = max(1, len(base) // (150 if ctx.quick else 100000))      # thorough: the text cut at every offset
    for k in range(1, len(base), step):
        p = os.path.join(ind, "t%d.exp" % k)
        open(p, "wb").write(base[:k])
        inputs.append(("truncate:%d" % k, p, None))
    for k in range(30 if ctx.quick else 400):
        b = bytearray(base)
        for _ in range(rnd.randint(1, 3)):
            pos = rnd.randrange(len(b))
            op = rnd.randint(0, 3)
            if op == 0:
                b[pos] = rnd.choice(b"\x00\xff'\"()*-;:.\\")
            elif op == 1:
                del b[pos:pos + rnd.randint(1, 20)]
            elif op == 2:
                b[pos:pos] = b[rnd.randrange(len(b)):][:rnd.randint(1, 30)]
            else:
                b[pos:pos] = rnd.choice([b"(*", b"*)", b"--", b"'", b"END_ENTITY;", b"ENTITY x;", b"(", b")" * 3])
        p = os.path.join(ind, "x%d.exp" % k)
        open(p, "wb").write(bytes(b))
        inputs.append(("mutate:%d" % k, p, None))
    only = {}        # inputs that are not run through all four tools: tag -> tools
    if not ctx.quick:
        from vf import tokmut
        for f in sorted(glob.glob(os.path.join(REPO, "data", "*", "*.exp"))):
            inputs.append(("shipped:" + os.path.relpath(f, os.path.join(REPO, "data")), f, None))
            # single-token mutants of the shipped schemas at every (n/10)-th token (spec/TokMut.tla with Stride): the
            # smaller schemas through the checker and the C++ generator, the larger ones through the checker
            text = open(f, errors="replace").read()
            ntok = len(tokmut.tokenize(text))
            if ntok > 100000:
                continue
            base = os.path.basename(f)[:-4]
            for k, m in enumerate(tokmut.mutants(text, ctx.work, with_ins=False, stride=max(1, ntok // 10))):
                if m["op"] == "none":
                    continue
                p = os.path.join(ind, "sk_%s_%d.exp" % (base[:24], k))
                open(p, "w", encoding="latin-1").write(m["text"])
                tag = "shiptoken:tok_%s:%s:%d" % (m["op"], base[:24], m["i"])
                inputs.append((tag, p, None))
                only[tag] = ["check-express", "exp2cxx"] if ntok <= 40000 else ["check-express"]
    env = dict(os.environ, **build.ASAN_ENV)
    jobs = [(tag, p, t) for tag, p, o in inputs for t in only.get(tag, TOOLS)]

    def one(j):
        tag, p, tool = j
        dd = mkdir(os.path.join(wd, "run", "%s_%s" % (os.path.basename(p), tool)))
        limit = 300 if tag.startswith("ship") else 60
        t0 = time.time()
        try:
            q = subprocess.run([os.path.join(bdir, "bin", tool), p], cwd=dd, env=env, stdout=subprocess.DEVNULL, stderr=subprocess.PIPE, timeout=limit)
            rc, err, to = q.returncode, q.stderr.decode("latin-1")[-3000:], False
        except subprocess.TimeoutExpired:
            rc, err, to = 124, "", True
        shutil.rmtree(dd, ignore_errors=True)
        san = ("ERROR: AddressSanitizer" in err) or ("runtime error:" in err) or rc in (98, 99)
        frame = ""
        if san:
            for ln in err.split("\n"):
                if ("/src/" in ln or "expparse" in ln) and "#" in ln:
                    # function and source position only: stable across runs and trees
                    mm = re.search(r"in (\S+) .*?(src/\S+|expparse\S*)", ln)
                    frame = ("%s %s" % (mm.group(1), mm.group(2)) if mm else re.sub(r"0x[0-9a-f]+", "", ln.strip()))[:160]
                    break
        return tag, tool, rc, to, san, frame, round(time.time() - t0, 2), err[-600:]
    lines, meta = [], []
    with cf.ThreadPoolExecutor(max_workers=14) as ex:
        for tag, tool, rc, to, san, frame, secs, err in ex.map(one, jobs):
            lines.append(json.dumps({"e": "Run", "input": tag, "tool": tool, "rc": rc if 0 <= rc < 1000 else 999, "signalled": rc < 0,
                                     "sanitizer": san, "timedout": to, "secs": secs}))
            meta.append((tag, tool, frame, err))
    tp = os.path.join(wd, "trace.ndjson")
    open(tp, "w").write("\n".join(lines) + "\n")
    got = []
    r = tlc.run_tlc("Bounded_Trace", "Bounded_Trace.cfg", workers=1, timeout=900, env={"TRACE": tp}, on_case=got.append)
    if r.rc != 0 or r.post_violated or r.errors:
        raise InfraError("Bounded_Trace did not consume the record: rc=%s %s" % (r.rc, r.tail[-12:]))
    paths = {tag: p for tag, p, o in inputs}
    for rep in got:
        ev = rep["ev"]
        tag, tool, frame, err = meta[rep["line"] - 1]
        what = "sanitizer" if ev["sanitizer"] else "signal" if ev["signalled"] else "timeout" if ev["timedout"] else "status"
        origin = tag.split(":")[0] + (":" + tag.split(":")[1] if tag.startswith(("boundary", "mutant", "token", "shiptoken")) else "")
        try:
            content = open(paths[tag], "rb").read()[:4000].decode("latin-1")
        except OSError:
            content = ""
        ctx.violation("%s|%s|%s" % (what, origin, frame or "rc%s" % ev["rc"]),
                      "%s: %s on %s (rc %s, %.1fs) %s" % (what, tool, tag, ev["rc"], ev["secs"], frame),
                      {"input_tag": tag, "tool": tool, "input_head": content, "stderr_tail": err})
    shutil.rmtree(wd, ignore_errors=True)
    cov = {"states": d.distinct, "evaluations": len(jobs), "distinct_nontrivial": len(inputs), "unsafe_runs": len(got),
           "inputs_by_origin": {k: sum(1 for t, _, _ in inputs if t.startswith(k)) for k in ("boundary", "valid", "mutant", "token", "truncate", "mutate", "shipped", "shiptoken")},
           "samples": [json.loads(lines[0]), {"boundary_input": boundary_input("scope_depth", 3)}],
           "rule": "boundary family of every modelled table + valid family + single-fault mutants + truncations and byte "
                   "mutations of a valid schema (+ shipped schemas in the thorough tier), each through 4 sanitizer-built tools; "
                   "distinct = distinct input files"}
    return {"level": "exploration", "coverage": cov, "assumptions": [
        "memory safety is shown for the corpus only: the specification supplies the capacity model and the structure "
        "of the corpus, the verdict comes from AddressSanitizer/UBSan runs (leak detection off)",
        "time limit 60 s per run (300 s for the shipped application-protocol schemas)"]}

"""Shared engine of C10 and C11: populations from spec/Lazy_Gen.tla -> real lazy loader -> spec/Lazy_Trace.tla."""
import concurrent.futures as cf
import json
import os
import shutil

from vf import lazy, sess, tlc
from vf.common import InfraError, mkdir


def run_family(ctx, family, clauses, each=False):
    """clauses: the report kinds this property owns (others are ignored here and judged by the sibling property)."""
    drv = lazy.driver()
    wd = os.path.join(ctx.work, "s")
    shutil.rmtree(wd, ignore_errors=True)
    mkdir(wd)
    pops = []
    g = tlc.run_tlc("Lazy_Gen", None, workers=4, timeout=900, on_case=pops.append,
                    cfg_text='CONSTANTS Family = "%s" Deep = %s\nINIT Init\nNEXT Next\nINVARIANT Emit\n'
                             % (family, "FALSE" if ctx.quick else "TRUE"))
    if g.rc != 0 or g.errors:
        raise InfraError("Lazy_Gen failed: %s" % g.tail[-10:])
    scen = []
    pops.sort(key=lambda c: json.dumps(c, sort_keys=True))
    for i, case in enumerate(pops):
        P = case["pop"]
        # load orders: ascending, descending, and (thorough) every rotation; C11 also loads each instance alone
        orders = ("asc", "desc") if (not ctx.quick or i % 2 == 0) else ("asc",)
        if not ctx.quick and len(P) > 2:
            orders = orders + tuple("rot:%d" % k for k in range(1, len(P)))
        if each:
            orders = tuple("each:%d" % x["id"] for x in P) + orders
        for order in orders:
            scen.append((P, order, (case["lay"], case["str"])))
    scripts, meta = [], {}
    for k, (P, order, variant) in enumerate(scen):
        f = os.path.join(wd, "p%d.p21" % k)
        open(f, "w", newline="").write(lazy.file_text(P, *variant))
        L = lazy.script(f, P, order)
        scripts.append((str(k), L))
        meta[str(k)] = (P, order, variant, L, f)
    res = {}
    B = 40
    with cf.ThreadPoolExecutor(max_workers=12) as ex:
        for r in ex.map(lambda k: sess.run_scripts(drv, scripts[k:k + B], mkdir(os.path.join(wd, "b%d" % k)), timeout=300),
                        range(0, len(scripts), B)):
            res.update(r)
    lines, owner = [], []
    for tag, (P, order, variant, L, f) in meta.items():
        evs = lazy.events(P, L, res.get(tag, []))
        lines.extend(evs)
        owner.extend([tag] * len(evs))
    # validate in chunks (parallel TLC processes)
    got = []
    chunks, cur, start = [], [], 0
    for i, ln in enumerate(lines):
        if ln.startswith('{"e": "Given"') and len(cur) > 8000:
            chunks.append((start, cur))
            cur, start = [], i
        cur.append(ln)
    if cur:
        chunks.append((start, cur))

    def val(c):
        start, ls = c
        tp = os.path.join(wd, "t%d.ndjson" % start)
        open(tp, "w").write("\n".join(ls) + "\n" + json.dumps({"e": "End"}) + "\n")
        out = []
        r = tlc.run_tlc("Lazy_Trace", "Lazy_Trace.cfg", workers=1, timeout=900, env={"TRACE": tp}, on_case=out.append)
        if r.rc != 0 or r.post_violated or r.errors:
            raise InfraError("Lazy_Trace did not consume the record: rc=%s %s" % (r.rc, r.tail[-12:]))
        for o in out:
            o["gline"] = start + o["line"] - 1
        return out
    with cf.ThreadPoolExecutor(max_workers=8) as ex:
        for o in ex.map(val, chunks):
            got.extend(o)
    nrep = 0
    clean = tainted = 0
    for rep in got:
        what = rep["what"]
        if what == "stats":
            clean += rep["ev"]["clean"]
            tainted += rep["ev"]["tainted"]
            continue
        if not any(what == c or what.startswith(c) for c in clauses):
            continue
        nrep += 1
        tag = owner[rep["gline"]]
        P, order, variant, L, f = meta[tag]
        ev = rep["ev"]
        if rep["dev"]:
            key = "dev:" + rep["dev"]
        else:
            key = "%s|%s|%s" % (what, json.dumps(P, separators=(",", ":")), variant[0])
        ctx.violation(key, "%s [layout %s] on population %s: %s" % (what, variant[0], json.dumps(P, separators=(",", ":"))[:200], json.dumps(ev)[:260]),
                      {"population": P, "file": lazy.file_text(P, *variant), "layout": variant[0], "string_form": variant[1], "order": order, "event": ev})
    shutil.rmtree(wd, ignore_errors=True)
    sample = [json.loads(x) for x in lines[:4]]
    return dict(layouts=sorted({v[0] for _, _, v in scen}), loads_judged_in_full=clean, loads_under_known_reentrancy=tainted, populations=len(pops), sessions=len(scen), events=len(lines), reports=nrep, samples=sample,
                gen_states=g.distinct, gen_transitions=g.generated)

"""C05 - reading and writing Part 21 is memory-safe and terminates on any input (restricted form).

spec/Bounded.tla models the fixed-size scratch buffers and counters on the Part 21 side (numeral buffers, BUFSIZ
scratch strings, keyword buffers, nesting depth, parameter and part counts) and yields their boundary families.  The
corpus = those boundary inputs + the single-fault files of spec/P21Read.tla (C03) + the round-trip populations of
spec/P21Value.tla (C01) + truncation at every k-th offset and byte mutations of conforming files + illegal complex
combinations.  Every file is read and written back by the ASan+UBSan build of the reader (library driver, child
process, time limit); TLC judges every run with Bounded!SafeRun.
"""
import concurrent.futures as cf
import json
import os
import random
import shutil
import subprocess
import time

from checks import c01
from vf import build, kinds, p21, tlc
from vf.common import VERIF, InfraError, mkdir

DRV = os.path.join(VERIF, "harness", "cpp", "session_drv.cc")
RT = os.path.join(VERIF, "schemas", "rt.exp")
HEAD = "ISO-10303-21;\n" + p21.HEADER % "RT" + "DATA;\n#1=TGT(1);\n"
TAIL = "ENDSEC;\nEND-ISO-10303-21;\n"


def boundary_file(table, n):
    if table == "real_token":
        return HEAD + "#2=SIMPLE(1,%s.5,3.5,'s',\"0\",.T.,.U.,.RED.);\n" % ("9" * n) + TAIL
    if table == "int_token":
        return HEAD + "#2=SIMPLE(%s,2.5,3.5,'s',\"0\",.T.,.U.,.RED.);\n" % ("9" * n) + TAIL
    if table == "string_value":
        return HEAD + "#2=SIMPLE(1,2.5,3.5,'%s',\"0\",.T.,.U.,.RED.);\n" % ("s" * n) + TAIL
    if table == "keyword_len":
        return HEAD + "#2=%s(1);\n" % ("K" * n) + TAIL
    if table == "aggr_depth":
        return HEAD + "#2=NESTED(%s1%s);\n" % ("(" * n, ")" * n) + TAIL
    if table == "param_count":
        return HEAD + "#2=TGT(%s);\n" % ",".join(["1"] * n) + TAIL
    if table == "enum_token":
        return HEAD + "#2=SIMPLE(1,2.5,3.5,'s',\"0\",.T.,.U.,.%s.);\n" % ("E" * n) + TAIL
    if table == "complex_parts":
        return HEAD + "#2=(%s);\n" % "".join("CPA(1,.RED.)" if k % 2 else "CBASE(1)" for k in range(n)) + TAIL
    raise ValueError(table)


def run(ctx):
    d = tlc.check_design("Bounded", "Bounded_MC.cfg", workers=4, timeout=300)
    for v in d.violated:
        ctx.violation("design|" + v, "Bounded violates %s" % v, {"tlc": d.tail[-30:]})
    fam = []
    g = tlc.run_tlc("Bounded_Gen", None, workers=2, timeout=300, on_case=fam.append,
                    cfg_text='CONSTANTS Deep = %s Side = "p21"\nINIT GInit\nNEXT GNext\nINVARIANT Emit\n' % ("FALSE" if ctx.quick else "TRUE"))
    if g.rc != 0 or g.errors or not fam:
        raise InfraError("Bounded_Gen failed: %s" % g.tail[-10:])
    s = build.schema_lib("rt", open(RT).read(), "asan")
    drv = build.link_driver("session_rt", [DRV], cfg="asan", schema=s)
    sk = build.schema_lib("kinds", open(kinds.SCHEMA).read(), "asan")
    drvk = build.link_driver("session_kinds", [DRV], cfg="asan", schema=sk)
    wd = os.path.join(ctx.work, "s")
    shutil.rmtree(wd, ignore_errors=True)
    ind = mkdir(os.path.join(wd, "in"))
    inputs = []       # (tag, path, driver)
    for f in sorted(fam, key=lambda f: (f["table"], f["n"])):
        p = os.path.join(ind, "b_%s_%d.p21" % (f["table"], f["n"]))
        open(p, "w").write(boundary_file(f["table"], f["n"]))
        inputs.append(("boundary:%s:%d" % (f["table"], f["n"]), p, drv))
    # C03's single-fault files (kinds schema)
    faults = []
    g3 = tlc.run_tlc("P21Read_GenFault", None, workers=2, timeout=600, on_case=faults.append,
                     cfg_text="CONSTANTS Deep = %s\nINIT Init\nNEXT Next\nINVARIANT Emit\n" % ("FALSE" if ctx.quick else "TRUE"))
    for i, c in enumerate(faults):
        text, fid, intact, itxt = kinds.fault_case(c)
        p = os.path.join(ind, "f%d.p21" % i)
        open(p, "w").write(text)
        inputs.append(("fault:%s:%d" % (c["class"], i), p, drvk))
    # C01's conforming populations, then truncations and mutations of them
    pops = []
    g1 = tlc.run_tlc("P21Value_Gen", None, workers=2, timeout=600, on_case=pops.append,
                     cfg_text="CONSTANTS Extra = 0\nINIT Init\nNEXT Next\nINVARIANT Emit\n")
    pops.sort(key=lambda c: (c["shape"], c["n"]))
    rnd = random.Random(ctx.seed)
    bases = []
    for i, c in enumerate(pops):
        txt = c01.render(c["inst"], c01.VARIANTS[i % len(c01.VARIANTS)])
        bases.append(txt)
        if i % (4 if ctx.quick else 1) == 0:
            p = os.path.join(ind, "v%d.p21" % i)
            open(p, "w").write(txt)
            inputs.append(("valid:%d" % i, p, drv))
    sel = bases[:: (12 if ctx.quick else 3)]
    for bi, txt in enumerate(sel):
        body = txt.encode()
        start = txt.index("DATA;")
        step = max(1, (len(body) - start) // (8 if ctx.quick else 40))
        for k in range(start, len(body), step):
            p = os.path.join(ind, "t%d_%d.p21" % (bi, k))
            open(p, "wb").write(body[:k])
            inputs.append(("truncate:%d:%d" % (bi, k), p, drv))
        for m in range(6 if ctx.quick else 40):
            b = bytearray(body)
            for _ in range(rnd.randint(1, 3)):
                pos = rnd.randrange(start, len(b))
                op = rnd.randint(0, 3)
                if op == 0:
                    b[pos] = rnd.choice(b"\x00\xff'\"()#=;,.$*\\/")
                elif op == 1:
                    del b[pos:pos + rnd.randint(1, 12)]
                elif op == 2:
                    b[pos:pos] = b[rnd.randrange(start, len(b)):][:rnd.randint(1, 20)]
                else:
                    b[pos:pos] = rnd.choice([b"/*", b"*/", b"'", b"((", b"))", b"#", b"=", b"&SCOPE", b"ENDSEC;", b"!", b"\\S\\", b"\\X2\\"])
            p = os.path.join(ind, "x%d_%d.p21" % (bi, m))
            open(p, "wb").write(bytes(b))
            inputs.append(("mutate:%d:%d" % (bi, m), p, drv))
    env = dict(os.environ, **build.ASAN_ENV)

    def one(j):
        tag, p, driver = j
        base = os.path.basename(p)
        resf = os.path.join(wd, "res_" + base)
        out = os.path.join(wd, "out_" + base)
        script = "scenario x\nnew 0\nread %s\nstates\nwritenv %s\nwritews %s.ws\nquit\n" % (p, out, out)
        limit = 60 + os.path.getsize(p) // 2000
        t0 = time.time()
        try:
            q = subprocess.run([driver, resf], input=script.encode(), env=env, stdout=subprocess.DEVNULL, stderr=subprocess.PIPE, timeout=limit)
            rc, err, to = q.returncode, q.stderr.decode("latin-1")[-4000:], False
        except subprocess.TimeoutExpired:
            rc, err, to = 124, "", True
        for f in (resf, out, out + ".ws"):
            if os.path.exists(f):
                os.unlink(f)
        san = ("ERROR: AddressSanitizer" in err) or ("runtime error:" in err) or rc in (98, 99)
        frame = ""
        if san or rc < 0 or rc == 134:
            import re
            for ln in err.split("\n"):
                m = re.search(r"#\d+ 0x[0-9a-f]+ in (\S+) (/repo/\S+?):(\d+)", ln)
                if m:
                    frame = "%s %s:%s" % (m.group(1), m.group(2).replace("/repo/", ""), m.group(3))
                    break
            if not frame and "terminate called" in err:
                frame = "terminate: " + err.split("terminate called")[1][:80].strip().replace("\n", " ")
        return tag, rc, to, san, frame, round(time.time() - t0, 2), err[-700:]
    lines, meta = [], []
    with cf.ThreadPoolExecutor(max_workers=14) as ex:
        for tag, rc, to, san, frame, secs, err in ex.map(one, inputs):
            lines.append(json.dumps({"e": "Run", "input": tag, "rc": rc if 0 <= rc < 1000 else 999, "signalled": rc < 0 or rc == 134, "sanitizer": san,
                                     "timedout": to, "secs": secs}))
            meta.append((tag, frame, err))
    tp = os.path.join(wd, "trace.ndjson")
    open(tp, "w").write("\n".join(lines) + "\n")
    got = []
    r = tlc.run_tlc("Bounded_Trace", "Bounded_Trace.cfg", workers=1, timeout=900, env={"TRACE": tp}, on_case=got.append)
    if r.rc != 0 or r.post_violated or r.errors:
        raise InfraError("Bounded_Trace did not consume the record: rc=%s %s" % (r.rc, r.tail[-12:]))
    paths = {tag: p for tag, p, dv in inputs}
    for rep in got:
        ev = rep["ev"]
        tag, frame, err = meta[rep["line"] - 1]
        what = "sanitizer" if ev["sanitizer"] else "signal" if ev["signalled"] else "timeout" if ev["timedout"] else "status"
        origin = ":".join(tag.split(":")[:2]) if tag.startswith(("boundary", "fault")) else tag.split(":")[0]
        try:
            content = open(paths[tag], "rb").read()[-1500:].decode("latin-1")
        except OSError:
            content = ""
        ctx.violation("%s|%s|%s" % (what, origin if not frame else "-", frame or "rc%s" % ev["rc"]),
                      "%s: reading/writing %s (rc %s, %.1fs) %s" % (what, tag, ev["rc"], ev["secs"], frame),
                      {"input_tag": tag, "input_tail": content, "stderr_tail": err})
    shutil.rmtree(wd, ignore_errors=True)
    kindsn = ("boundary", "fault", "valid", "truncate", "mutate")
    cov = {"states": d.distinct, "evaluations": len(inputs), "distinct_nontrivial": len(inputs), "unsafe_runs": len(got),
           "inputs_by_origin": {k: sum(1 for t, _, _ in inputs if t.startswith(k)) for k in kindsn},
           "samples": [json.loads(lines[0]), {"boundary_file_tail": boundary_file("aggr_depth", 3)[-60:]}],
           "rule": "boundary family of every modelled Part 21 table + single-fault files + conforming populations + their "
                   "truncations and byte mutations; each read, written as exchange and working-session file by the sanitizer build"}
    return {"level": "exploration", "coverage": cov, "assumptions": [
        "memory safety is shown for the corpus only: the specification supplies the capacity model and the structure of the "
        "corpus, the verdict comes from AddressSanitizer/UBSan runs (leak detection off)",
        "time limit 60 s + 0.5 ms per input byte; the lazy loader is exercised by C10/C11, not here"]}

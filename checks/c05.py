"""C05 - reading and writing Part 21 is memory-safe and terminates on any input (restricted form).

spec/Bounded.tla models the fixed-size scratch buffers and counters on the Part 21 side (numeral buffers, BUFSIZ
scratch strings, keyword buffers, nesting depth, parameter and part counts) and yields their boundary families.  The
corpus = those boundary inputs + the single-fault files of spec/P21Read.tla (C03) + the round-trip populations of
spec/P21Value.tla (C01) + truncation at every k-th offset and byte mutations of conforming files + illegal complex
combinations.  Every file is read and written back by the ASan+UBSan build of the reader (library driver, child
process, time limit); TLC judges every run with Bounded!SafeRun.
"""
import concurrent.futures as cf
import json
import os
import random
import re
import shutil
import subprocess
import time

from checks import c01
from vf import build, kinds, p21, tlc
from vf.common import VERIF, InfraError, mkdir

DRV = os.path.join(VERIF, "harness", "cpp", "session_drv.cc")
RT = os.path.join(VERIF, "schemas", "rt.exp")
HEAD = "ISO-10303-21;\n" + p21.HEADER % "RT" + "DATA;\n#1=TGT(1);\n"
TAIL = "ENDSEC;\nEND-ISO-10303-21;\n"
CHAR_INS = ["/", "*", "'", "(", ")", ",", ";", "#", "=", "$", ".", "\\", "\"", "!", "&", " ", "E", "0", "-", "\n"]


def boundary_file(table, n):
    if table == "real_token":
        return HEAD + "#2=SIMPLE(1,%s.5,3.5,'s',\"0\",.T.,.U.,.RED.);\n" % ("9" * n) + TAIL
    if table == "int_token":
        return HEAD + "#2=SIMPLE(%s,2.5,3.5,'s',\"0\",.T.,.U.,.RED.);\n" % ("9" * n) + TAIL
    if table == "string_value":
        return HEAD + "#2=SIMPLE(1,2.5,3.5,'%s',\"0\",.T.,.U.,.RED.);\n" % ("s" * n) + TAIL
    if table == "keyword_len":
        return HEAD + "#2=%s(1);\n" % ("K" * n) + TAIL
    if table == "aggr_depth":
        return HEAD + "#2=NESTED(%s1%s);\n" % ("(" * n, ")" * n) + TAIL
    if table == "param_count":
        return HEAD + "#2=TGT(%s);\n" % ",".join(["1"] * n) + TAIL
    if table == "enum_token":
        return HEAD + "#2=SIMPLE(1,2.5,3.5,'s',\"0\",.T.,.U.,.%s.);\n" % ("E" * n) + TAIL
    if table == "complex_parts":
        return HEAD + "#2=(%s);\n" % "".join("CPA(1,.RED.)" if k % 2 else "CBASE(1)" for k in range(n)) + TAIL
    if table == "comment_len":
        return HEAD + "/*%s*/\n#2=TGT(2);\n" % ("c" * n) + TAIL
    if table == "comment_in_value":
        return HEAD + "#2=SIMPLE(1,/*%s*/2.5,3.5,'s',\"0\",.T.,.U.,.RED.);\n" % ("c" * n) + TAIL
    if table == "pre_header":
        return "ISO-10303-21; /*%s*/\n" % ("c" * n) + p21.HEADER % "RT" + "DATA;\n#1=TGT(1);\n" + TAIL
    if table == "header_string":
        return HEAD.replace("'verif'", "'%s'" % ("h" * n)) + TAIL
    if table == "instance_id":
        return HEAD + "#%s=TGT(2);\n" % ("9" * n) + TAIL
    if table.startswith("extreme:"):
        _, kind, text = table.split(":", 2)
        # as a plain attribute, as an aggregate element, inside a typed SELECT value and as a NUMBER
        if kind == "real":
            return HEAD + ("#2=SIMPLE(1,%s,3.5,'s',\"0\",.T.,.U.,.RED.);\n#3=SIMPLE(1,2.5,%s,'s',\"0\",.T.,.U.,.RED.);\n"
                           "#4=AGGS((1),(%s,1.5),$,$,$,$,$,$);\n#5=DEEPSEL(WID(%s),$,());\n#6=TGT(6);\n" % (text, text, text, text)) + TAIL
        return HEAD + "#2=SIMPLE(%s,2.5,3.5,'s',\"0\",.T.,.U.,.RED.);\n#4=AGGS((%s,1),$,$,$,$,$,$,$);\n#5=DEEPSEL(CNT(%s),$,());\n#6=TGT(6);\n" % (text, text, text) + TAIL
    if table.startswith("degenerate:"):
        d = table.split(":")[1]
        return {"empty": "", "magic_only": "ISO-10303-21;\n", "header_only": "ISO-10303-21;\n" + p21.HEADER % "RT",
                "data_only": "DATA;\n#1=TGT(1);\nENDSEC;\n", "no_endsec": HEAD + "#2=TGT(2);\n", "no_end_marker": HEAD + "ENDSEC;\n",
                "nul_bytes": HEAD + "#2=TGT(\0\0\0);\n\0" + TAIL, "binary_noise": "".join(chr((i * 37 + 11) % 256) for i in range(4000)),
                "missing_file": None, "directory": None}[d]
    raise ValueError(table)


def run(ctx):
    d = tlc.check_design("Bounded", "Bounded_MC.cfg", workers=4, timeout=300)
    for v in d.violated:
        ctx.violation("design|" + v, "Bounded violates %s" % v, {"tlc": d.tail[-30:]})
    fam = []
    g = tlc.run_tlc("Bounded_Gen", None, workers=2, timeout=300, on_case=fam.append,
                    cfg_text='CONSTANTS Deep = %s Side = "p21"\nINIT GInit\nNEXT GNext\nINVARIANT Emit\n' % ("FALSE" if ctx.quick else "TRUE"))
    if g.rc != 0 or g.errors or not fam:
        raise InfraError("Bounded_Gen failed: %s" % g.tail[-10:])
    s = build.schema_lib("rt", open(RT).read(), "asan")
    drv = build.link_driver("session_rt", [DRV], cfg="asan", schema=s)
    sk = build.schema_lib("kinds", open(kinds.SCHEMA).read(), "asan")
    drvk = build.link_driver("session_kinds", [DRV], cfg="asan", schema=sk)
    wd = os.path.join(ctx.work, "s")
    shutil.rmtree(wd, ignore_errors=True)
    ind = mkdir(os.path.join(wd, "in"))
    inputs = []       # (tag, path, driver)
    for f in sorted(fam, key=lambda f: (f["table"], f["n"], f.get("parts", []))):
        p = os.path.join(ind, "b_%s_%d%s.p21" % (re.sub(r"[^A-Za-z0-9_.+-]", "_", f["table"]), f["n"], "_" + "_".join(f["parts"]) if "parts" in f else ""))
        if f["table"] == "parts":
            open(p, "w").write(HEAD + "#2=(%s);\n#3=TGT(3);\n" % "".join(x + "()" for x in f["parts"]) + TAIL)
            inputs.append(("boundary:parts:%s" % "+".join(f["parts"]), p, drv))
            continue
        txt = boundary_file(f["table"], f["n"])
        if txt is None:        # not a file: a path that does not exist / a directory
            p = os.path.join(ind, "nosuch.p21") if f["table"].endswith("missing_file") else mkdir(os.path.join(ind, "adir.p21"))
        else:
            open(p, "w", encoding="latin-1").write(txt)
        inputs.append(("boundary:%s:%d" % (f["table"], f["n"]), p, drv))
    # C03's single-fault files (kinds schema)
    faults = []
    g3 = tlc.run_tlc("P21Read_GenFault", None, workers=2, timeout=600, on_case=faults.append,
                     cfg_text="CONSTANTS Deep = %s\nINIT Init\nNEXT Next\nINVARIANT Emit\n" % ("FALSE" if ctx.quick else "TRUE"))
    for i, c in enumerate(faults):
        text, fid, intact, itxt = kinds.fault_case(c)
        p = os.path.join(ind, "f%d.p21" % i)
        open(p, "w").write(text)
        inputs.append(("fault:%s:%d" % (c["class"], i), p, drvk))
    # C01's conforming populations, then truncations and mutations of them
    pops = []
    g1 = tlc.run_tlc("P21Value_Gen", None, workers=2, timeout=600, on_case=pops.append,
                     cfg_text="CONSTANTS Extra = 0\nINIT Init\nNEXT Next\nINVARIANT Emit\n")
    pops.sort(key=lambda c: (c["shape"], c["n"]))
    rnd = random.Random(ctx.seed)
    bases = []
    for i, c in enumerate(pops):
        txt = c01.render(c["inst"], c01.VARIANTS[i % len(c01.VARIANTS)])
        bases.append(txt)
        if i % (4 if ctx.quick else 1) == 0:
            p = os.path.join(ind, "v%d.p21" % i)
            open(p, "w").write(txt)
            inputs.append(("valid:%d" % i, p, drv))
    sel = bases[:: (12 if ctx.quick else 3)]
    for bi, txt in enumerate(sel):
        body = txt.encode()
        start = txt.index("DATA;")
        step = max(1, (len(body) - start) // 8) if ctx.quick else 1      # thorough: premature EOF at every offset
        for k in range(start, len(body), step):
            p = os.path.join(ind, "t%d_%d.p21" % (bi, k))
            open(p, "wb").write(body[:k])
            inputs.append(("truncate:%d:%d" % (bi, k), p, drv))
        for m in range(6 if ctx.quick else 300):
            b = bytearray(body)
            for _ in range(rnd.randint(1, 3)):
                pos = rnd.randrange(start, len(b))
                op = rnd.randint(0, 3)
                if op == 0:
                    b[pos] = rnd.choice(b"\x00\xff'\"()#=;,.$*\\/")
                elif op == 1:
                    del b[pos:pos + rnd.randint(1, 12)]
                elif op == 2:
                    b[pos:pos] = b[rnd.randrange(start, len(b)):][:rnd.randint(1, 20)]
                else:
                    b[pos:pos] = rnd.choice([b"/*", b"*/", b"'", b"((", b"))", b"#", b"=", b"&SCOPE", b"ENDSEC;", b"!", b"\\S\\", b"\\X2\\"])
            p = os.path.join(ind, "x%d_%d.p21" % (bi, m))
            open(p, "wb").write(bytes(b))
            inputs.append(("mutate:%d:%d" % (bi, m), p, drv))
    # every single-character edit of the DATA section (spec/TokMut.tla on characters: each character deleted, doubled,
    # swapped with its neighbour, each piece of CHAR_INS inserted at each offset) of the populations richest in typed
    # select values, nested aggregates and strings
    from vf import tokmut

    def richness(t):
        return len(re.findall(r"[A-Z0-9_]\(", t)) + len(re.findall(r"['\"]", t)) // 2
    rich = sorted([t for t in bases if len(t) - t.index("DATA;") <= 900], key=lambda t: (-richness(t), t))
    charjobs = []
    for bi, txt in enumerate(rich[:1 if ctx.quick else 5]):
        for op, i, pp, new in tokmut.char_mutants(txt, txt.index("DATA;") + 6, CHAR_INS, ctx.work):
            p = os.path.join(ind, "c%d_%s_%d_%d.p21" % (bi, op, i, pp))
            open(p, "w", encoding="latin-1").write(new)
            charjobs.append(("char:%s%s:%d:%d" % (op, "" if op != "ins" else repr(CHAR_INS[pp - 1]), bi, i), p, drv))
    # ... and every single-token edit (token deleted, doubled, swapped with its neighbour, a punctuation token inserted)
    for bi, txt in enumerate(rich[:1 if ctx.quick else 5]):
        st = txt.index("DATA;") + 6
        for op, i, pp, new in tokmut.p21_token_mutants(txt, st, txt.index("ENDSEC;", st), ctx.work):
            p = os.path.join(ind, "k%d_%s_%d_%d.p21" % (bi, op, i, pp))
            open(p, "w", encoding="latin-1").write(new)
            charjobs.append(("token:%s%s:%d:%d" % (op, "" if op != "ins" else repr(tokmut.P21_INS[pp - 1]), bi, i), p, drv))
    env = dict(os.environ, **build.ASAN_ENV)

    def one(j, limit=None):
        tag, p, driver = j
        base = os.path.basename(p)
        resf = os.path.join(wd, "res_" + base)
        out = os.path.join(wd, "out_" + base)
        script = "scenario x\nnew 0\nread %s\nstates\nwritenv %s\nwritews %s.ws\nquit\n" % (p, out, out)
        limit = limit or 60 + (os.path.getsize(p) if os.path.isfile(p) else 0) // 2000
        t0 = time.time()
        try:
            q = subprocess.run([driver, resf], input=script.encode(), env=env, stdout=subprocess.DEVNULL, stderr=subprocess.PIPE, timeout=limit)
            rc, err, to = q.returncode, q.stderr.decode("latin-1")[-4000:], False
        except subprocess.TimeoutExpired:
            rc, err, to = 124, "", True
        for f in (resf, out, out + ".ws"):
            if os.path.exists(f):
                os.unlink(f)
        san = ("ERROR: AddressSanitizer" in err) or ("runtime error:" in err) or rc in (98, 99)
        frame = ""
        if san or rc < 0 or rc == 134:
            for ln in err.split("\n"):
                m = re.search(r"#\d+ 0x[0-9a-f]+ in (\S+) (/repo/\S+?):(\d+)", ln)
                if m:
                    frame = "%s %s:%s" % (m.group(1), m.group(2).replace("/repo/", ""), m.group(3))
                    break
            if not frame and "terminate called" in err:
                frame = "terminate: " + err.split("terminate called")[1][:80].strip().replace("\n", " ")
        return tag, rc, to, san, frame, round(time.time() - t0, 2), err[-700:]
    def batch(js):
        """many small files in one driver process; file by file only if the batch does not end cleanly"""
        script = "".join("scenario x%d\nnew 0\nread %s\nstates\nwritenv %s/bo_%d.p21\nwritews %s/bo_%d.ws\n" % (k, j[1], wd, id(js) % 100000, wd, id(js) % 100000)
                         for k, j in enumerate(js)) + "quit\n"
        resf = os.path.join(wd, "bres_%d" % (id(js) % 100000))
        t0 = time.time()
        try:
            q = subprocess.run([js[0][2], resf], input=script.encode(), env=env, stdout=subprocess.DEVNULL, stderr=subprocess.PIPE, timeout=180)
            err = q.stderr.decode("latin-1")
            clean = q.returncode == 0 and "ERROR: AddressSanitizer" not in err and "runtime error:" not in err
        except subprocess.TimeoutExpired:
            clean = False
        for f in (resf, "%s/bo_%d.p21" % (wd, id(js) % 100000), "%s/bo_%d.ws" % (wd, id(js) % 100000)):
            if os.path.exists(f):
                os.unlink(f)
        if clean:
            secs = round((time.time() - t0) / len(js), 3)
            return [(j[0], 0, False, False, "", secs, "") for j in js]
        return [one(j, limit=20) for j in js]
    # exhaustive short inputs per attribute kind: every string up to length 2 (quick) / 3 (thorough) over the kind's
    # alphabet of spec/P21Lex.tla extended by the Part 21 punctuation, fed to STEPattribute::STEPread of the sanitizer build
    from checks import c09
    adrv = build.link_driver("attr_drv", [c09.DRV], cfg="asan", schema=sk)
    PUNCT = ["(", ")", ",", ";", "$", "*", "/", "'", "#", "\\", " ", "=", "\""]
    tokruns = []
    ntok = 0
    for kind, sigma in c09.ALPHA.items():
        words = []
        sig = sorted(set(sigma) | set(PUNCT))
        cfg = 'CONSTANTS Kind = "%s" Sigma = {%s} MaxLen = %d\nINIT Init\nNEXT Next\nCONSTRAINT Bound\nINVARIANT Emit\n' % (
            kind, ", ".join(json.dumps(c) for c in sig), 2 if ctx.quick else 4)
        gt = tlc.run_tlc("P21Lex_Gen", None, cfg_text=cfg, workers=8, timeout=1800, on_case=words.append)
        if gt.rc != 0 or gt.errors:
            raise InfraError("P21Lex_Gen failed for %s: %s" % (kind, gt.tail[-10:]))
        ws = sorted("".join(w["w"]) for w in words)
        ws = [w for w in ws if "\t" not in w and "\n" not in w]
        ntok += len(ws)
        for k in range(0, len(ws), 4000):
            tokruns.append((kind, k, ws[k:k + 4000]))

    def feed(kind, ws):
        inp = "".join("%s\t%s\t%s\n" % (kind, tail, w) for w in ws for tail in (",7);", ");"))
        try:
            q = subprocess.run([adrv], input=inp.encode("latin-1"), env=env, stdout=subprocess.DEVNULL, stderr=subprocess.PIPE, timeout=600)
            rc, err, to = q.returncode, q.stderr.decode("latin-1")[-3000:], False
        except subprocess.TimeoutExpired:
            rc, err, to = 124, "", True
        san = ("ERROR: AddressSanitizer" in err) or ("runtime error:" in err) or rc in (98, 99)
        return rc, err, to, san

    def tokrun(j):
        kind, k, ws = j
        t0 = time.time()
        rc, err, to, san = feed(kind, ws)
        bad = ""
        if rc != 0 or to or san:       # find one token that reproduces it alone
            lo = ws
            while len(lo) > 1:
                half = lo[:len(lo) // 2]
                r2 = feed(kind, half)
                lo = half if (r2[0] != 0 or r2[2] or r2[3]) else lo[len(lo) // 2:]
            r3 = feed(kind, lo)
            bad = lo[0] if (r3[0] != 0 or r3[2] or r3[3]) else "(only in sequence)"
        return "tokens:%s:%d" % (kind, k), rc, to, san, ("token %r" % bad) if bad else "", round(time.time() - t0, 2), err[-700:]
    lines, meta = [], []
    with cf.ThreadPoolExecutor(max_workers=8) as ex:
        for tag, rc, to, san, frame, secs, err in ex.map(tokrun, tokruns):
            lines.append(json.dumps({"e": "Run", "input": tag, "rc": rc if 0 <= rc < 1000 else 999, "signalled": rc < 0 or rc == 134, "sanitizer": san,
                                     "timedout": to, "secs": secs}))
            meta.append((tag, frame, err))
    with cf.ThreadPoolExecutor(max_workers=14) as ex:
        for tag, rc, to, san, frame, secs, err in ex.map(one, inputs):
            lines.append(json.dumps({"e": "Run", "input": tag, "rc": rc if 0 <= rc < 1000 else 999, "signalled": rc < 0 or rc == 134, "sanitizer": san,
                                     "timedout": to, "secs": secs}))
            meta.append((tag, frame, err))
    with cf.ThreadPoolExecutor(max_workers=14) as ex:
        for rs in ex.map(batch, [charjobs[k:k + 150] for k in range(0, len(charjobs), 150)]):
            for tag, rc, to, san, frame, secs, err in rs:
                lines.append(json.dumps({"e": "Run", "input": tag, "rc": rc if 0 <= rc < 1000 else 999, "signalled": rc < 0 or rc == 134, "sanitizer": san,
                                         "timedout": to, "secs": secs}))
                meta.append((tag, frame, err))
    inputs = inputs + charjobs
    tp = os.path.join(wd, "trace.ndjson")
    open(tp, "w").write("\n".join(lines) + "\n")
    got = []
    r = tlc.run_tlc("Bounded_Trace", "Bounded_Trace.cfg", workers=1, timeout=900, env={"TRACE": tp}, on_case=got.append)
    if r.rc != 0 or r.post_violated or r.errors:
        raise InfraError("Bounded_Trace did not consume the record: rc=%s %s" % (r.rc, r.tail[-12:]))
    paths = {tag: p for tag, p, dv in inputs}
    for rep in got:
        ev = rep["ev"]
        tag, frame, err = meta[rep["line"] - 1]
        what = "sanitizer" if ev["sanitizer"] else "signal" if ev["signalled"] else "timeout" if ev["timedout"] else "status"
        origin = ":".join(tag.split(":")[:2]) if tag.startswith(("boundary", "fault", "char", "token")) else tag.split(":")[0]
        try:
            content = open(paths[tag], "rb").read()[-1500:].decode("latin-1")
        except (OSError, KeyError):
            content = ""
        ctx.violation("%s|%s|%s" % (what, origin if not frame else "-", frame or "rc%s" % ev["rc"]),
                      "%s: reading/writing %s (rc %s, %.1fs) %s" % (what, tag, ev["rc"], ev["secs"], frame),
                      {"input_tag": tag, "input_tail": content, "stderr_tail": err})
    shutil.rmtree(wd, ignore_errors=True)
    kindsn = ("boundary", "fault", "valid", "truncate", "mutate", "char", "token")
    cov = {"states": d.distinct, "evaluations": len(inputs), "distinct_nontrivial": len(inputs), "unsafe_runs": len(got),
           "inputs_by_origin": {k: sum(1 for t, _, _ in inputs if t.startswith(k)) for k in kindsn},
           "short_tokens_exhaustive": ntok, "token_batches": len(tokruns),
           "samples": [json.loads(lines[0]), {"boundary_file_tail": boundary_file("aggr_depth", 3)[-60:]}],
           "rule": "boundary family of every modelled Part 21 table + single-fault files + conforming populations + their "
                   "truncations and byte mutations; each read, written as exchange and working-session file by the sanitizer build"}
    return {"level": "exploration", "coverage": cov, "assumptions": [
        "memory safety is shown for the corpus only: the specification supplies the capacity model and the structure of the "
        "corpus, the verdict comes from AddressSanitizer/UBSan runs (leak detection off)",
        "time limit 60 s + 0.5 ms per input byte; the lazy loader is exercised by C10/C11, not here"]}

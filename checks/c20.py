"""C20 - diagnostics name the construct that is actually wrong.

On the runs of spec/Schema_Gen.tla's mutants (each carries the offending lexeme and the diagnostic family expected)
every diagnostic line is parsed with the message table of src/express/error.c and judged by TLC
(spec/FrontEnd_Trace.tla): attributed to the input file; no empty argument; the expected family is printed and
quotes the offending lexeme (undefined / duplicated name, illegal character, bad identifier, encoded-string digit
and count, argument counts).  A schema with warnings of several classes is run plain, with -w c and with -i c for
each class c: the runs must be equal after deleting class-c warnings and have the same exit status.
"""
import concurrent.futures as cf
import json
import os
import re
import shutil
import subprocess

from checks import c07, frontend_common as fc
from vf import build, diag, express, tlc
from vf.common import InfraError, mkdir

WARN_BODY = """ENTITY wa; x : INTEGER; END_ENTITY;
ENTITY wb SUBTYPE OF (wa); y : REAL; END_ENTITY;
ENTITY wc; r : wa; WHERE w1 : r.y > 0.0; END_ENTITY;
FUNCTION wf(p : INTEGER) : INTEGER;
  IF TRUE THEN RETURN (p); ELSE RETURN (0); END_IF;
END_FUNCTION;
ENTITY wd; z : INTEGER; WHERE w2 : wf(z, z) > 0; END_ENTITY;
"""
CLASSES = [("downcast", True), ("invariant_condition", False), ("limits", False), ("unnecessary_qualifiers", False),
           ("invalid_case", False), ("all", True), ("none", False)]


def lexeme_ok(m, d):
    """does diagnostic d (of the expected family) quote the offending lexeme(s) of mutant m?"""
    args = [a.strip() for a in d["args"]]
    cl = m["class"]
    if cl == "lex_nonascii":
        return any(a.lower().lstrip("0x") == "e9" for a in args)
    if cl.startswith("argcount"):
        return args[:3] == [m["lexeme"], "0" if m.get("pos") == "noargs" else "3", "1"]
    return any(a.lower() == m["lexeme"].lower() for a in args)


def run(ctx):
    cov = {}
    bdir = build.core("plain")
    cases, g = fc.gen(ctx)
    wd = os.path.join(ctx.work, "s")
    shutil.rmtree(wd, ignore_errors=True)
    mkdir(wd)
    ins = [x for x in fc.inputs(ctx, cases, wd) if x[3] is not None]
    # every single-token mutant (spec/TokMut.tla): whatever is printed must be a complete message about this file, and
    # an undeclared name at a using position must be quoted by an ERROR
    tok = [x for x in fc.token_inputs(ctx, cases, wd, 1 if ctx.quick else 6, extra=[("statements", c07.statement_host())]) if x[3]["class"] != "tok_none"]
    for x in tok:
        if x[2] == "fault":
            x[3]["lexeme"], x[3]["mustquote"] = "nosuch_x", True
    ins += tok
    tbl = diag.table()
    tools = ["check-express", "exp2cxx"] if ctx.quick else fc.TOOLS
    jobs = [(tag, path, m, tool) for tag, path, expect, m, c in ins for tool in tools]

    def one(j):
        tag, path, m, tool = j
        # the argument-count diagnostic is a warning: warnings are off unless asked for
        rc, err, n = fc.run_tool(bdir, tool, path, os.path.join(wd, "run", tag + "_" + tool),
                                 ["-w", "all"] if m["class"].startswith("argcount") else [])
        return tag, tool, rc, diag.parse(err, tbl), err
    res = {}
    with cf.ThreadPoolExecutor(max_workers=14) as ex:
        for tag, tool, rc, ds, err in ex.map(one, jobs):
            res[(tag, tool)] = (rc, ds, err)
    lines = [json.dumps({"e": "Input", "tag": "diag"})]
    for tag, path, expect, m, c in ins:
        for tool in tools:
            rc, ds, err = res[(tag, tool)]
            lines.append(json.dumps({"e": "Diags", "tag": tag, "tool": tool, "input": path, "lexeme": m["lexeme"], "code": m["code"],
                                     "mclass": m["class"], "mustquote": bool(m.get("mustquote")),
                                     "diags": [{"file": x["file"], "code": x["code"], "sev": x["sev"], "cls": x["cls"],
                                                "quotes": bool(m.get("mustquote")) and bool(re.search(r"(?<![A-Za-z0-9_])%s(?![A-Za-z0-9_])" % re.escape(m["lexeme"]), x["msg"], re.I)),
                                                "emptyarg": any(a.strip() == "" for a in x["args"]),
                                                "haslexeme": bool(m["lexeme"]) and x["code"] == m["code"] and lexeme_ok(m, x),
                                                "msg": x["msg"][:120]} for x in ds]}))
    # ---- a schema set spread over several files: the main schema in the file given, the schemas it uses found as
    # <schema>.exp in the working directory.  Every diagnostic names one of those files, and the fault placed in the
    # used schema is attributed to the file of that schema (not to the file that was looked up last).
    split_lines = []
    for tag, path, expect, m, c in ins:
        if not (m.get("pos") == "in_used_schema" and c["schema"] and c["schema"].get("aux3")):
            continue
        text = open(path, encoding="latin-1").read()
        i1, i2 = text.find("\nSCHEMA aux;"), text.find("\nSCHEMA aux2;")
        if i1 < 0 or i2 < 0:
            continue
        d = mkdir(os.path.join(wd, "split", tag))
        mainf, auxf, aux2f = os.path.join(d, "main_model.exp"), os.path.join(d, "aux.exp"), os.path.join(d, "aux2.exp")
        open(mainf, "w", encoding="latin-1").write(text[:i1 + 1])
        open(auxf, "w", encoding="latin-1").write(text[i1 + 1:i2 + 1])
        open(aux2f, "w", encoding="latin-1").write(text[i2 + 1:])
        for tool in tools:
            q = subprocess.run([os.path.join(bdir, "bin", tool), mainf], cwd=d, stdout=subprocess.PIPE, stderr=subprocess.PIPE, timeout=120,
                               env=dict(os.environ, EXPRESS_PATH="."))
            ds = diag.parse(q.stderr.decode("latin-1"), tbl)
            files = {os.path.basename(x["file"]) for x in ds}
            faultfiles = {os.path.basename(x["file"]) for x in ds if x["code"] == m["code"]}
            split_lines.append(json.dumps({"e": "SplitDiags", "tag": tag, "tool": tool, "mclass": m["class"], "code": m["code"],
                                           "allowed": sorted(files <= {"main_model.exp", "aux.exp", "aux2.exp"} and ["ok"] or sorted(files)),
                                           "faultfiles": sorted(faultfiles), "printed": [x["msg"][:100] for x in ds][:6]}))
    # self-check against vacuity: a mutant class that names a diagnostic family must provoke that family at least once,
    # or its 'quotes the offending lexeme' clause was never exercised
    printed = {}
    for tag, path, expect, m, c in ins:
        if m.get("code"):
            hit = any(x["code"] == m["code"] for tool in tools for x in res[(tag, tool)][1])
            printed.setdefault(m["class"].split("_long")[0], []).append(hit)
    vac = sorted(k for k, v in printed.items() if not any(v) and k != "lex_nonascii")
    cov["family_printed_by_class"] = {k: "%d/%d" % (sum(v), len(v)) for k, v in sorted(printed.items())}
    # ---- warning options: two-run formula
    wcases = cases[:2] if ctx.quick else cases[:12]
    nopt = 0
    for i, c in enumerate(wcases):
        p = os.path.join(wd, "in", "w%d.exp" % i)
        open(p, "w").write(express.render(c["schema"], "", WARN_BODY))
        for tool in (["check-express"] if ctx.quick else ["check-express", "exppp"]):
            rc0, err0, _ = fc.run_tool(bdir, tool, p, os.path.join(wd, "run", "w%d_plain_%s" % (i, tool)))
            d0 = [{"sev": x["sev"], "cls": x["cls"], "code": x["code"], "line": x["line"], "msg": x["msg"][:100]} for x in diag.parse(err0, tbl)]
            lines.append(json.dumps({"e": "Plain", "tag": "w%d" % i, "tool": tool, "diags": d0, "rc": rc0}))
            for cls, expectwarn in CLASSES:
                for opt in ("-w", "-i"):
                    rc1, err1, _ = fc.run_tool(bdir, tool, p, os.path.join(wd, "run", "w%d_%s_%s_%s" % (i, opt[1], cls, tool)), [opt, cls])
                    d1 = [{"sev": x["sev"], "cls": x["cls"], "code": x["code"], "line": x["line"], "msg": x["msg"][:100]} for x in diag.parse(err1, tbl)]
                    nopt += 1
                    if cls in ("all", "none"):
                        # pseudo classes: only the verdict clause applies (every class changes at once)
                        lines.append(json.dumps({"e": "Opt", "tag": "w%d" % i, "tool": tool, "opt": "", "cls": "*", "expectwarn": False,
                                                 "diags": [x for x in d1 if x["sev"] != "WARNING"], "rc": rc1 if -1 < rc1 < 1000 else 999,
                                                 "plainrc": rc0, "optname": opt + " " + cls}))
                        continue
                    lines.append(json.dumps({"e": "Opt", "tag": "w%d" % i, "tool": tool, "opt": opt, "cls": cls, "expectwarn": expectwarn,
                                             "diags": d1, "rc": rc1 if -1 < rc1 < 1000 else 999, "plainrc": rc0, "optname": opt + " " + cls}))
    # ---- the same options on inputs with an ERROR fault; class names = every named entry of the message table
    names = sorted({cls for _, _, _, cls, _ in tbl if cls})
    named_code = {name: cls for name, _, _, cls, _ in tbl if cls}
    nfault = 0
    fjobs = []
    for tag, path, expect, m, c in ins:
        if m["class"].startswith("tok_"):
            continue
        own = named_code.get(m["code"])
        pick = names if (own and not ctx.quick) else ([own] if own else (names[:2] if not ctx.quick else []))
        for cls in pick:
            for opt in ("-i", "-w"):
                fjobs.append((tag, path, m, cls, opt))

    def fone(j):
        tag, path, m, cls, opt = j
        base = ["-w", "all"] if m["class"].startswith("argcount") else []
        rc1, err1, _ = fc.run_tool(bdir, "check-express", path, os.path.join(wd, "run", "f%s_%s_%s" % (tag, opt[1], cls)), base + [opt, cls])
        return j, rc1, err1
    fres = {}
    with cf.ThreadPoolExecutor(max_workers=14) as ex:
        for j, rc1, err1 in ex.map(fone, fjobs):
            fres[(j[0], j[3], j[4])] = (rc1, err1)
    slim = lambda ds: [{"sev": x["sev"], "cls": x["cls"], "code": x["code"], "line": x["line"], "msg": x["msg"][:100]} for x in ds]
    for j in fjobs:
        tag, path, m, cls, opt = j
        rc0, ds0, err0 = res[(tag, "check-express")]
        rc1, err1 = fres[(tag, cls, opt)]
        lines.append(json.dumps({"e": "Plain", "tag": tag, "tool": "check-express", "diags": slim(ds0), "rc": rc0}))
        lines.append(json.dumps({"e": "OptFault", "tag": tag, "tool": "check-express", "opt": opt, "cls": cls, "optname": opt + " " + cls,
                                 "mclass": m["class"], "refused": "usage:" in err1 and "unknown warning" in err1,
                                 "diags": slim(diag.parse(err1, tbl)), "rc": rc1 if -1 < rc1 < 1000 else 999, "plainrc": rc0}))
        nfault += 1
    lines += split_lines
    got = fc.validate(ctx, lines, wd)
    byin = {t: (p, m, c) for t, p, e, m, c in ins}
    for rep in got:
        ev = rep["ev"]
        if ev["e"] == "SplitDiags":
            ctx.violation("%s|%s|%s" % (rep["what"], ev["mclass"], ev["tool"]),
                          "%s: %s on the split form of mutant %s in_used_schema: diagnostics name files %s, the %s diagnostic names %s; printed: %s" % (
                              rep["what"], ev["tool"], ev["mclass"], ev["allowed"], ev["code"], ev["faultfiles"], "; ".join(ev["printed"])[:300]),
                          {"event": ev})
            continue
        if ev["e"] == "Diags":
            path, m, c = byin[ev["tag"]]
            if True:
                key = "%s|%s|%s" % (rep["what"], m["class"] + (m["pos"] if m["class"].startswith("tok_") else ""), ev["tool"])
            ctx.violation(key, "%s: %s on mutant %s (offending lexeme %r, expected family %s); printed: %s" % (
                rep["what"], ev["tool"], m["class"], m["lexeme"], m["code"], "; ".join(d["msg"] for d in ev["diags"])[:300]),
                {"mutant": m, "input": open(path, encoding="latin-1").read(), "event": ev})
        else:
            ctx.violation("%s|%s|%s%s" % (rep["what"], ev.get("optname"), ev.get("tool"), "|" + ev["mclass"] if ev["e"] == "OptFault" else ""),
                          "%s with option %s (%s): rc %s vs plain %s, %d diagnostics" % (
                              rep["what"], ev.get("optname"), ev.get("tool"), ev.get("rc"), ev.get("plainrc"), len(ev.get("diags", []))),
                          {"event": ev})
    shutil.rmtree(wd, ignore_errors=True)
    cov.update({"states": g.distinct, "transitions": g.generated, "traces_validated_against_impl": len(jobs) + nopt,
                "exhaustive": True, "mutant_runs": len(jobs), "option_runs": nopt, "option_runs_on_faulty_inputs": nfault, "disagreeing_events": len(got),
                "samples": [json.loads(lines[1]), json.loads(lines[-1])],
                "evaluations": len(jobs) + nopt, "distinct_nontrivial": len(ins) + nopt,
                "rule": "every mutant (with its offending lexeme and expected diagnostic family) x tools; warning-bearing "
                        "schemas x {plain, -w c, -i c} for 5 named classes and the pseudo classes all/none"})
    cov["vacuous_classes"] = vac
    if vac and not ctx.violations:
        # nothing else disagreed, but part of the family was never exercised on this tree: no verdict rather than a pass
        raise InfraError("mutant classes that never provoke their diagnostic family (vacuous): %s" % vac)
    return {"level": "model_checking", "coverage": cov, "assumptions": [
        "argument extraction uses the message templates of src/express/error.c read from the working tree",
        "line numbers in diagnostics are not judged (not part of the statement)"]}

"""C04 - all EXPRESS tools give the same, correct verdict on a schema.

D: spec/FrontEnd.tla (parse -> resolve -> back end, gated on the sticky error flag) is model checked:
   exit status non-zero iff an ERROR was reported, no artefact after an error.
G+V: spec/Schema_Gen.tla emits the valid schema family and its single-fault mutants (the statement's classes);
   each input is run through check-express, exppp, exp2cxx and exp2python (fresh directory each); exit status,
   ERROR/WARNING lines and the number of files written are logged and judged by TLC (spec/FrontEnd_Trace.tla):
   ExitIffError, ordinary status, NoArtefactOnError, Verdict (valid accepted / mutant rejected), the four tools agree.
"""
import concurrent.futures as cf
import json
import os
import shutil

from checks import frontend_common as fc
from vf import build, diag, tlc
from vf.common import mkdir


def run(ctx):
    cov = {}
    bdir = build.core("plain")
    d = tlc.check_design("FrontEnd", "FrontEnd_MC.cfg", workers=4, timeout=300)
    for v in d.violated:
        ctx.violation("design|" + v, "FrontEnd violates %s" % v, {"tlc": d.tail[-30:]})
    cases, g = fc.gen(ctx)
    wd = os.path.join(ctx.work, "s")
    shutil.rmtree(wd, ignore_errors=True)
    mkdir(wd)
    ins = fc.inputs(ctx, cases, wd)
    from checks import c07
    ins += fc.token_inputs(ctx, cases, wd, 2 if ctx.quick else 10, 1 if ctx.quick else 3, extra=[("statements", c07.statement_host())])
    tbl = diag.table()
    jobs = [(tag, path, expect, m, tool) for tag, path, expect, m, c in ins for tool in fc.TOOLS]

    def one(j):
        tag, path, expect, m, tool = j
        rc, err, n = fc.run_tool(bdir, tool, path, os.path.join(wd, "run", tag + "_" + tool))
        ds = diag.parse(err, tbl)
        return tag, tool, rc, [{"sev": x["sev"], "code": x["code"]} for x in ds], n, err
    res = {}
    with cf.ThreadPoolExecutor(max_workers=14) as ex:
        for tag, tool, rc, ds, n, err in ex.map(one, jobs):
            res[(tag, tool)] = (rc, ds, n, err)
    # self-check against vacuity: a mutant class that names a diagnostic family must provoke that family at least once
    # (a mutant that is rejected for an unrelated reason - say a syntax error in the harness' rendering - proves nothing)
    printed = {}
    for tag, path, expect, m, c in ins:
        if m and m.get("code"):
            hit = any(x["code"] == m["code"] for tool in fc.TOOLS for x in res[(tag, tool)][1])
            printed.setdefault(m["class"].split("_long")[0] + (":" + m["pos"] if m.get("pos") and not m["class"].startswith("tok_") else ""), []).append(hit)
    # (the argument-count diagnostic is a warning that is only printed on request: C20 asks for it, this check does not)
    vac = sorted(k for k, v in printed.items() if not any(v) and not k.startswith(("lex_nonascii", "argcount")))
    cov["family_printed_by_class"] = {k: "%d/%d" % (sum(v), len(v)) for k, v in sorted(printed.items())}
    lines = []
    owner = []
    for tag, path, expect, m, c in ins:
        lines.append(json.dumps({"e": "Input", "tag": tag}))
        owner.append(tag)
        for tool in fc.TOOLS:
            rc, ds, n, err = res[(tag, tool)]
            lines.append(json.dumps({"e": "Run", "tag": tag, "tool": tool, "expect": expect, "mclass": m["class"] if m else "",
                                     "rc": rc if -1 < rc < 1000 else 999, "diags": [{"sev": x["sev"]} for x in ds], "nfiles": n}))
            owner.append(tag)
    got = fc.validate(ctx, lines, wd)
    byin = {t: (p, e, m, c) for t, p, e, m, c in ins}
    for rep in got:
        ev = rep["ev"]
        path, expect, m, c = byin[ev["tag"]]
        mc = m["class"] if m else "valid"
        if rep["dev"]:
            key = "dev:" + rep["dev"]
        else:
            key = "%s|%s|%s|%s" % (rep["what"], ev.get("tool"), mc, json.dumps(c["choice"], sort_keys=True) if expect == "valid" and not m else "at%s%s" % ((m or {}).get("at"), (m or {}).get("pos", "")))
        err = res[(ev["tag"], ev["tool"])][3] if "tool" in ev else ""
        ctx.violation(key, "%s: %s on %s input (%s): rc %s, %d diagnostics, %s files" % (
            rep["what"], ev.get("tool"), expect, mc, ev.get("rc"), len(ev.get("diags", [])), ev.get("nfiles")),
            {"choice": c["choice"], "mutant": m, "input": open(path, encoding="latin-1").read(), "event": ev, "stderr": err[-1500:]})
    shutil.rmtree(wd, ignore_errors=True)
    nm = sum(1 for x in ins if x[3])
    cov.update({"states": d.distinct, "transitions": d.generated, "traces_validated_against_impl": len(jobs),
                "exhaustive": True, "valid_schemas": len(cases), "mutants": nm, "tool_runs": len(jobs),
                "disagreeing_events": len(got),
                "samples": [json.loads(lines[1]), {"mutant": ins[1][3], "input_head": open(ins[1][1], encoding="latin-1").read()[:300] if os.path.exists(ins[1][1]) else ""}],
                "evaluations": len(jobs), "distinct_nontrivial": len(ins),
                "rule": "valid family (inheritance shape x supertype expression x ABSTRACT x attribute preset x rules x "
                        "second schema) + every single-fault mutant class at its positions; x 4 tools"})
    cov["vacuous_classes"] = vac
    if vac and not ctx.violations:
        # nothing else disagreed, but part of the family was never exercised on this tree: no verdict rather than a pass
        from vf.common import InfraError
        raise InfraError("mutant classes that never provoke their diagnostic family (vacuous): %s" % vac)
    return {"level": "model_checking", "coverage": cov, "assumptions": [
        "'bad INVERSE' is covered by an unknown inverted attribute (a type-incompatible inverted attribute is not "
        "diagnosed by the front end and is not claimed)",
        "artefacts = files created in the (fresh) working directory"]}

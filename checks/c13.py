"""C13 - the instance manager stays consistent under any sequence of operations.

D: TLC explores spec/InstMgr.tla exhaustively for a small pool (invariants Inv, ByNameOK, VerifyOK; action properties
   FreshOK, OrderOK).
G: spec/InstMgr_Gen.tla enumerates every call history up to a length bound (then random long ones); each is
   replayed on the real InstMgr and the projection after the last call is compared with the module's prediction.
V: random 200-call executions of the real manager are logged call by call and validated against
   spec/InstMgr_Trace.tla (every step must be a step of the module; query results must equal its operators).
"""
import json
import os
import subprocess

from vf import build, tlc
from vf.common import WORK, VERIF, InfraError, log, mkdir
from vf.replay import BatchReplayer

DRV = os.path.join(VERIF, "harness", "cpp", "instmgr_drv.cc")
FIELDS = ["objs", "ids", "sts", "maxId", "freed", "find", "ver", "byA", "byB", "kwA", "kwB"]


def hist_line(h):
    return ";".join("%s:%s:%s" % (a, o, x) for a, o, x in h)


def gen_cfg(nobj, maxexpl, maxlen, allstates):
    return """CONSTANTS NObj = %d MaxExpl = %d MaxLen = %d AllStates = %s
  Obj <- GObj
  NameOf <- GNameOf
  ExplIds <- GExplIds
  States <- GStates
INIT GInit
NEXT GNext
CONSTRAINT Bound
INVARIANT Emit
""" % (nobj, maxexpl, maxlen, "TRUE" if allstates else "FALSE")


class Judge:
    def __init__(self, ctx, mode):
        self.ctx, self.mode = ctx, mode
        self.bad = set()         # minimal failing histories
        self.samples = []
        self.n = 0
        self.nontrivial = 0

    def __call__(self, line, exp, out):
        self.n += 1
        if len(exp["objs"]) > 0:
            self.nontrivial += 1
        if len(self.samples) < 2 and len(exp["objs"]) >= 2:
            self.samples.append({"mode": self.mode, "history": line, "predicted": exp})
        # skip histories that extend an already reported one: the real state is corrupted from there on
        parts = line.split(";")
        for k in range(1, len(parts)):
            if ";".join(parts[:k]) in self.bad:
                return
        why = None
        if isinstance(out, tuple):
            why = "driver died (rc=%s) %s" % (out[1], out[2][-300:].replace("\n", " | "))
            got = None
        else:
            try:
                got = json.loads(out)
            except ValueError:
                got, why = None, "unparsable driver output %r" % out[:200]
        if got is not None:
            if "abort" in got:
                why = "call impossible on the real manager: " + got["abort"]
            else:
                e = dict(exp)
                e["freed"] = sorted(e["freed"])
                for f in FIELDS:
                    if got.get(f) != e[f]:
                        why = "%s: real %s, module %s" % (f, got.get(f), e[f])
                        break
                if why is None and got["idx"] != list(range(1, len(got["objs"]) + 1)):
                    why = "GetIndex: real %s" % got["idx"]
        if why:
            self.bad.add(line)
            last = parts[-1].split(":")[0]
            self.ctx.violation("hist|" + line, "after %s the real manager differs from InstMgr: %s" % (last, why),
                               {"mode": self.mode, "history": line, "predicted": exp, "observed": got})


def run(ctx):
    q = ctx.quick
    bdir = build.core("plain")
    drv = build.link_driver("instmgr_drv", [DRV])
    cov = {}
    # ---- D
    d = tlc.check_design("InstMgr_MC", "InstMgr_MC.cfg", workers=16, timeout=1800)
    for v in d.violated:
        ctx.violation("design|" + v, "InstMgr (the design the code is bound to) violates %s" % v, {"tlc": d.tail[-40:]})
    cov["states"], cov["transitions"] = d.distinct, d.generated
    cov["design"] = {"module": "InstMgr_MC", "constants": "NObj=3 MaxExpl=2 maxId<=4", "invariants":
                     ["Inv", "ByNameOK", "VerifyOK"], "action_properties": ["FreshOK", "OrderOK"], "depth": d.depth}
    # ---- G exhaustive
    L = 4 if q else 5
    j1 = Judge(ctx, "G-exhaustive")
    rp = BatchReplayer([drv, "replay", "3"], j1, batch=25000, workers=6)
    g = tlc.run_tlc("InstMgr_Gen", None, workers=8, timeout=3000, cfg_text=gen_cfg(3, 2, L, False),
                    on_case=lambda c: rp.add(hist_line(c["h"]), c["exp"]))
    n1 = rp.finish()
    if g.rc != 0 or g.errors:
        raise InfraError("generator failed: rc=%s %s %s" % (g.rc, g.errors[:3], g.tail[-10:]))
    # ---- G random long histories
    num, depth = (300, 25) if q else (6000, 40)
    j2 = Judge(ctx, "G-simulate")
    rp2 = BatchReplayer([drv, "replay", "4"], j2, batch=5000, workers=6)
    g2 = tlc.run_tlc("InstMgr_Gen", None, workers=4, timeout=3000, cfg_text=gen_cfg(4, 3, depth, True),
                     simulate=num, depth=depth, seed=ctx.seed,
                     on_case=lambda c: rp2.add(hist_line(c["h"]), c["exp"]))
    n2 = rp2.finish()
    if g2.errors:
        raise InfraError("simulation generator failed: %s" % g2.errors[:3])
    # ---- V
    ntr, tlen = (40, 200) if q else (1000, 200)
    segs = []
    per = 20
    for k in range(0, ntr, per):
        p = subprocess.run([drv, "rand", str(ctx.seed * 1000 + k), str(min(per, ntr - k)), str(tlen), "12", "40", "1"],
                           stdout=subprocess.PIPE, stderr=subprocess.PIPE, text=True, timeout=300)
        cur = None
        for ln in p.stdout.split("\n"):
            if not ln:
                continue
            if ln.startswith('{"e":"Reset"'):
                cur = []
                segs.append(cur)
            try:
                json.loads(ln)
            except ValueError:      # the driver died in the middle of a line
                continue
            cur.append(ln)
        if p.returncode != 0:
            cur.append(json.dumps({"e": "Crash", "rc": p.returncode}))
    acc, rej = tlc.validate_segments("InstMgr_Trace", "InstMgr_Trace.cfg", segs, os.path.join(ctx.work, "v"),
                                     parallel=6)
    for r in rej:
        seg = segs[r["segment"]]
        calls = [json.loads(x).get("e") for x in seg[:r["event"] + 1]]
        ev = json.loads(r["line"]) if r["line"] else {}
        ctx.violation("trace|%s|%s" % (ev.get("e"), ",".join(str(c) for c in calls[-4:])),
                      "a recorded call of the real manager is not a step of InstMgr (event %d of its execution): %s"
                      % (r["event"] + 1, r["line"][:400]),
                      {"mode": "V", "execution": seg[:r["event"] + 1]})
    nev = sum(len(s) for s in segs)
    cov.update({
        "traces_validated_against_impl": n1 + n2 + acc,
        "exhaustive": True,
        "G_exhaustive": {"length_bound": L, "histories": n1, "pool": "3 objects, explicit ids 1..2, 2 states",
                         "minimal_diverging": len(j1.bad)},
        "G_simulate": {"behaviours": num, "depth": depth, "prefix_cases": n2, "pool": "4 objects, ids 1..3, 4 states",
                       "minimal_diverging": len(j2.bad)},
        "V": {"executions": len(segs), "events": nev, "accepted_executions": acc, "rejected": len(rej)},
        "samples": j1.samples + j2.samples[:1] + ([{"mode": "V", "events": segs[0][:6]}] if segs else []),
        "evaluations": n1 + n2 + nev,
        "distinct_nontrivial": j1.nontrivial + j2.nontrivial,
        "rule": "every call history up to the length bound (exhaustive, each prefix one case) plus TLC -simulate "
                "histories; non-trivial = the manager is non-empty after the last call; distinct by construction "
                "(history is part of the TLC state)",
    })
    return {"level": "model_checking", "coverage": cov, "assumptions": [
        "callers respect the API preconditions the module states: an instance's id is changed only while it is "
        "outside the manager, destroyed instances are not passed in again, explicit ids are positive",
        "entity descriptors are hand-made (no generated schema); names are in the library's PrettyTmpName form",
    ]}

"""Executes operation scenarios on the Python runtime's aggregate containers and logs what they did.
usage: pyaggr_drv.py <stepcode python dir> <scenarios.jsonl> <trace.ndjson>
Each scenario {"cfg": {...}, "ops": [...]} becomes a "new" event followed by one event per operation carrying the
observed outcome (accepted / exception class, value read) and the container's query results."""
import json
import sys

sys.path.insert(0, sys.argv[1])
from stepcode.AggregationDataTypes import ARRAY, LIST, BAG, SET  # noqa: E402
from stepcode.SimpleDataTypes import INTEGER, REAL, STRING  # noqa: E402
from stepcode import Builtin  # noqa: E402

BAD = 99
TWIN = 100   # PyAggr!Twin: of another type, but compares equal to the abstract value 1


def mk(c, T=INTEGER):
    hi = None if c["unb"] else c["hi"]
    if c["kind"] == "ARRAY":
        return ARRAY(c["lo"], hi, T, UNIQUE=c["uniq"], OPTIONAL=c["opt"])
    if c["kind"] == "LIST":
        return LIST(c["lo"], hi, T, UNIQUE=c["uniq"])
    if c["kind"] == "BAG":
        return BAG(c["lo"], hi, T)
    return SET(c["lo"], hi, T)


BASE = {"INTEGER": INTEGER, "REAL": REAL, "STRING": STRING}


def conc(base, text):
    return INTEGER(int(text)) if base == "INTEGER" else REAL(float(text)) if base == "REAL" else STRING(text)


def val(v, base="INTEGER", concrete=None):
    """abstract value -> element of the base type (the ill-typed value is of another type)"""
    if v == BAD:
        return REAL(1.5) if base == "INTEGER" else INTEGER(5)
    if v == TWIN:
        one = INTEGER(1) if concrete is None else conc(base, concrete[0])
        if base == "INTEGER":
            return REAL(float(one))
        if base == "REAL":
            return INTEGER(int(one))
        return INTEGER(5)   # no value of another type compares equal to a STRING: as ill-typed as BAD
    if concrete is None:
        return INTEGER(v)
    return conc(base, concrete[v - 1])


def unval(r, base, concrete):
    """element read from the container -> abstract value (0 = nothing, -1 = not a value of the pool)"""
    if r is None:
        return 0
    if concrete is None:
        return int(r)
    for k, t in enumerate(concrete):
        if conc(base, t) == r and type(conc(base, t)) == type(r):
            return k + 1
    return -1


def q(f):
    try:
        r = f()
    except Exception as e:  # a query that raises is reported as such
        return "EXC:" + type(e).__name__
    return r


def queries(a):
    size = q(a.get_size)
    hib = q(a.get_hibound)
    un = q(a.get_value_unique)
    un = "T" if un is True else "F" if un is False else "U" if (un is None or str(un).upper().startswith("UNKNOWN") or type(un).__name__ in ("Unknown", "UNKNOWN", "LOGICAL")) else str(un)
    # the EXPRESS built-in functions of the same names must agree with the containers' own answers
    same = all(str(q(lambda f=f: f(a))) == str(q(m)) for f, m in (
        (Builtin.SIZEOF, a.get_size), (Builtin.HIBOUND, a.get_hibound), (Builtin.LOBOUND, a.get_lobound),
        (Builtin.HIINDEX, a.get_hiindex), (Builtin.LOINDEX, a.get_loindex), (Builtin.VALUE_UNIQUE, a.get_value_unique)))
    return {"builtins": same, "size": int(size) if not isinstance(size, str) else -99,
            "lob": int(q(a.get_lobound)), "hib": -1 if hib is None else int(hib),
            "loi": int(q(a.get_loindex)), "hii": int(q(a.get_hiindex)), "un": un}


def main():
    out = open(sys.argv[3], "w")
    for line in open(sys.argv[2]):
        sc = json.loads(line)
        c = sc["cfg"]
        if sc.get("decl"):          # a declaration on its own: is it accepted?
            ev = {"e": "decl", "kind": c["kind"], "lo": c["lo"], "hi": c["hi"], "unb": c["unb"], "uniq": c["uniq"], "opt": c["opt"],
                  "acc": True, "exc": ""}
            try:
                mk(c)
            except Exception as e:
                ev["acc"] = False
                ev["exc"] = type(e).__name__
            out.write(json.dumps(ev) + "\n")
            continue
        base, concrete = sc.get("base", "INTEGER"), sc.get("concrete")
        a = mk(c, BASE[base])
        out.write(json.dumps({"e": "new", "kind": c["kind"], "lo": c["lo"], "hi": c["hi"], "unb": c["unb"],
                              "uniq": c["uniq"], "opt": c["opt"]}) + "\n")
        for o in sc["ops"]:
            ev = {"e": o["op"], "i": o["i"], "v": o["v"], "val": 0, "exc": ""}
            try:
                if o["op"] == "set":
                    a[o["i"]] = val(o["v"], base, concrete)
                elif o["op"] == "get":
                    r = a[o["i"]]
                    ev["val"] = unval(r, base, concrete)
                else:
                    a.add(val(o["v"], base, concrete))
                ev["acc"] = True
            except Exception as e:
                ev["acc"] = False
                ev["exc"] = type(e).__name__
            ev.update(queries(a))
            out.write(json.dumps(ev) + "\n")
    out.close()


main()

"""Executes operation scenarios on the Python runtime's aggregate containers and logs what they did.
usage: pyaggr_drv.py <stepcode python dir> <scenarios.jsonl> <trace.ndjson>
Each scenario {"cfg": {...}, "ops": [...]} becomes a "new" event followed by one event per operation carrying the
observed outcome (accepted / exception class, value read) and the container's query results."""
import json
import sys

sys.path.insert(0, sys.argv[1])
from stepcode.AggregationDataTypes import ARRAY, LIST, BAG, SET  # noqa: E402
from stepcode.SimpleDataTypes import INTEGER, REAL  # noqa: E402

BAD = 99


def mk(c):
    hi = None if c["unb"] else c["hi"]
    if c["kind"] == "ARRAY":
        return ARRAY(c["lo"], hi, INTEGER, UNIQUE=c["uniq"], OPTIONAL=c["opt"])
    if c["kind"] == "LIST":
        return LIST(c["lo"], hi, INTEGER, UNIQUE=c["uniq"])
    if c["kind"] == "BAG":
        return BAG(c["lo"], hi, INTEGER)
    return SET(c["lo"], hi, INTEGER)


def val(v):
    return REAL(1.5) if v == BAD else INTEGER(v)


def q(f):
    try:
        r = f()
    except Exception as e:  # a query that raises is reported as such
        return "EXC:" + type(e).__name__
    return r


def queries(a):
    size = q(a.get_size)
    hib = q(a.get_hibound)
    un = q(a.get_value_unique)
    un = "T" if un is True else "F" if un is False else "U" if (un is None or str(un).upper().startswith("UNKNOWN") or type(un).__name__ in ("Unknown", "UNKNOWN", "LOGICAL")) else str(un)
    return {"size": int(size) if not isinstance(size, str) else -99,
            "lob": int(q(a.get_lobound)), "hib": -1 if hib is None else int(hib),
            "loi": int(q(a.get_loindex)), "hii": int(q(a.get_hiindex)), "un": un}


def main():
    out = open(sys.argv[3], "w")
    for line in open(sys.argv[2]):
        sc = json.loads(line)
        c = sc["cfg"]
        a = mk(c)
        out.write(json.dumps({"e": "new", "kind": c["kind"], "lo": c["lo"], "hi": c["hi"], "unb": c["unb"],
                              "uniq": c["uniq"], "opt": c["opt"]}) + "\n")
        for o in sc["ops"]:
            ev = {"e": o["op"], "i": o["i"], "v": o["v"], "val": 0, "exc": ""}
            try:
                if o["op"] == "set":
                    a[o["i"]] = val(o["v"])
                elif o["op"] == "get":
                    r = a[o["i"]]
                    ev["val"] = 0 if r is None else int(r)
                else:
                    a.add(val(o["v"]))
                ev["acc"] = True
            except Exception as e:
                ev["acc"] = False
                ev["exc"] = type(e).__name__
            ev.update(queries(a))
            out.write(json.dumps(ev) + "\n")
    out.close()


main()

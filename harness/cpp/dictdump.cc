// Dictionary dump: walks the Registry of a generated schema library and prints, as one JSON document, what the
// run-time dictionary says about every entity and defined type, plus the attribute names of a freshly created
// instance of every entity (Part 21 order).  Nothing is judged here.
#include "clstepcore/sdai.h"
#include "clstepcore/Registry.h"
#include "clstepcore/ExpDict.h"
#include "clstepcore/STEPattribute.h"
#include <cstdio>
#include <iostream>
#include <sstream>
#include <string>

extern void SchemaInit( class Registry & );

static std::string js( const std::string & s ) {
    std::string o = "\"";
    for( size_t i = 0; i < s.size(); i++ ) {
        unsigned char c = s[i];
        if( c == '"' || c == '\\' ) { o += '\\'; o += c; }
        else if( c == '\n' ) o += "\\n";
        else if( c == '\t' ) o += " ";
        else if( c < 0x20 ) o += ' ';
        else o += c;
    }
    return o + "\"";
}
static std::string js( const char * s ) { return js( std::string( s ? s : "" ) ); }

static const char * attrKind( const AttrDescriptor * a ) {
    switch( a->AttrType() ) {
        case AttrType_Explicit: return "explicit";
        case AttrType_Inverse: return "inverse";
        case AttrType_Deriving: return "derived";
        case AttrType_Redefining: return "redefining";
        default: return "?";
    }
}

static const char * aggKind( const TypeDescriptor * t ) {
    switch( t->Type() ) {
        case ARRAY_TYPE: return "ARRAY";
        case LIST_TYPE: return "LIST";
        case SET_TYPE: return "SET";
        case BAG_TYPE: return "BAG";
        default: return "";
    }
}
// structural description of a type as the dictionary holds it: name, and for aggregates kind, bounds, flags, element type
static std::string tyJson( const TypeDescriptor * t, int depth = 0 ) {
    if( !t || depth > 6 ) return "null";
    std::ostringstream o;
    o << "{\"name\":" << js( t->Name() );
    const AggrTypeDescriptor * at = dynamic_cast< const AggrTypeDescriptor * >( t );
    if( at ) {
        AggrTypeDescriptor * a = const_cast< AggrTypeDescriptor * >( at );
        ArrayTypeDescriptor * ar = dynamic_cast< ArrayTypeDescriptor * >( a );
        o << ",\"agg\":\"" << aggKind( t ) << "\",\"lo\":" << ( long ) a->Bound1() << ",\"hi\":" << ( long ) a->Bound2()
          << ",\"uniq\":" << ( a->UniqueElements().asInt() == LTrue ? "true" : "false" )
          << ",\"optelem\":" << ( ar && ar->OptionalElements().asInt() == LTrue ? "true" : "false" )
          << ",\"elem\":" << tyJson( a->AggrElemTypeDescriptor(), depth + 1 );
    }
    o << "}";
    return o.str();
}

int main() {
    Registry * reg = new Registry( SchemaInit );
    std::ostringstream o;
    o << "{\"entities\":[";
    reg->ResetEntities();
    const EntityDescriptor * ed;
    bool first = true;
    while( ( ed = reg->NextEntity() ) ) {
        o << ( first ? "" : "," ) << "{\"name\":" << js( ed->Name() ) << ",\"abstract\":" << ( ed->AbstractEntity().asInt() == LTrue ? "true" : "false" );
        first = false;
        o << ",\"supers\":[";
        { EntityDescItr it( ed->Supertypes() ); const EntityDescriptor * s; bool f = true;
          while( ( s = it.NextEntityDesc() ) ) { o << ( f ? "" : "," ) << js( s->Name() ); f = false; } }
        o << "],\"subs\":[";
        { EntityDescItr it( ed->Subtypes() ); const EntityDescriptor * s; bool f = true;
          while( ( s = it.NextEntityDesc() ) ) { o << ( f ? "" : "," ) << js( s->Name() ); f = false; } }
        o << "],\"attrs\":[";
        { AttrDescItr it( ed->ExplicitAttr() ); const AttrDescriptor * a; bool f = true;
          while( ( a = it.NextAttrDesc() ) ) {
              std::string tn = a->TypeName();
              o << ( f ? "" : "," ) << "{\"name\":" << js( a->Name() ) << ",\"kind\":\"" << attrKind( a ) << "\",\"opt\":"
                << ( a->Optional().asInt() == LTrue ? "true" : "false" ) << ",\"type\":" << js( tn ) << ",\"ty\":" << tyJson( a->DomainType() ) << "}";
              f = false;
          } }
        o << "],\"inverse\":[";
        { InverseAItr it( &( ed->InverseAttr() ) ); const Inverse_attribute * ia; bool f = true;
          while( ( ia = it.NextInverse_attribute() ) ) {
              o << ( f ? "" : "," ) << "{\"name\":" << js( ia->Name() ) << ",\"ent\":" << js( ia->inverted_entity_id_() )
                << ",\"attr\":" << js( ia->inverted_attr_id_() ) << ",\"setof\":" << ( ia->IsAggrType() ? "true" : "false" ) << "}";
              f = false;
          } }
        o << "],\"instance\":";
        SDAI_Application_instance * inst = reg->ObjCreate( ed->Name() );
        if( !inst || inst == ENTITY_NULL ) {
            o << "null";
        } else {
            o << "{\"sev\":" << ( int ) inst->Error().severity() << ",\"attrs\":[";
            for( int k = 0; k < inst->attributes.list_length(); k++ ) {
                const AttrDescriptor * ad = inst->attributes[k].getADesc();
                o << ( k ? "," : "" ) << "{\"name\":" << js( inst->attributes[k].Name() ) << ",\"owner\":" << js( ad ? ad->Owner().Name() : "" )
                  << ",\"kind\":\"" << ( ad ? attrKind( ad ) : "?" ) << "\"}";
            }
            o << "]}";
        }
        o << "}";
    }
    o << "],\"types\":[";
    reg->ResetTypes();
    const TypeDescriptor * td;
    first = true;
    while( ( td = reg->NextType() ) ) {
        std::string ts;
        td->TypeString( ts );
        o << ( first ? "" : "," ) << "{\"name\":" << js( td->Name() ) << ",\"code\":" << ( int ) td->Type() << ",\"desc\":" << js( ts )
          << ",\"ref\":" << js( td->ReferentType() ? td->ReferentType()->Name() : "" );
        first = false;
        const EnumTypeDescriptor * et = dynamic_cast< const EnumTypeDescriptor * >( td );
        if( et ) {
            SDAI_Enum * e = const_cast< EnumTypeDescriptor * >( et )->CreateEnum();
            o << ",\"items\":[";
            if( e ) for( int k = 0; k < e->no_elements(); k++ ) o << ( k ? "," : "" ) << js( e->element_at( k ) );
            o << "]";
        }
        const SelectTypeDescriptor * st = dynamic_cast< const SelectTypeDescriptor * >( td );
        if( st ) {
            o << ",\"members\":[";
            TypeDescItr it( st->GetElements() ); const TypeDescriptor * m; bool f = true;
            while( ( m = it.NextTypeDesc() ) ) { o << ( f ? "" : "," ) << js( m->Name() ); f = false; }
            o << "]";
        }
        const AggrTypeDescriptor * at = dynamic_cast< const AggrTypeDescriptor * >( td );
        if( at ) {
            AggrTypeDescriptor * a = const_cast< AggrTypeDescriptor * >( at );
            o << ",\"aggr\":{\"lo\":" << ( long ) a->Bound1() << ",\"hi\":" << ( long ) a->Bound2() << ",\"uniq\":"
              << ( a->UniqueElements().asInt() == LTrue ? "true" : "false" ) << ",\"optelem\":"
              << ( dynamic_cast< ArrayTypeDescriptor * >( a ) && dynamic_cast< ArrayTypeDescriptor * >( a )->OptionalElements().asInt() == LTrue ? "true" : "false" )
              << ",\"elem\":"
              << js( a->AggrElemTypeDescriptor() ? a->AggrElemTypeDescriptor()->Name() : "" ) << "}";
            o << ",\"ty\":" << tyJson( td );
        }
        o << "}";
    }
    o << "]}";
    printf( "%s\n", o.str().c_str() );
    return 0;
}

// Attribute literal driver (links the kinds model schema): feeds one token to STEPattribute::STEPread of an attribute
// of the given kind and reports what the reader concluded.  One tab-separated request per stdin line:
//     <kind> <TAB> <text that follows the token, e.g. ",7);"> <TAB> <token>
// One JSON line per request: severity, whether the attribute is unset, its value as the library prints it, for
// numeric kinds the binary value, and the next character left in the stream.
#include "clstepcore/sdai.h"
#include "clstepcore/Registry.h"
#include "clstepcore/ExpDict.h"
#include "clstepcore/STEPattribute.h"
#include "clstepcore/instmgr.h"
#include <cstdio>
#include <iostream>
#include <sstream>
#include <string>

extern void SchemaInit( class Registry & );

static std::string js( const std::string & s ) {
    std::string o = "\"";
    char b[8];
    for( size_t i = 0; i < s.size(); i++ ) {
        unsigned char c = s[i];
        if( c == '"' || c == '\\' ) { o += '\\'; o += c; }
        else if( c < 0x20 || c >= 0x7f ) { sprintf( b, "\\u%04x", c ); o += b; }
        else o += c;
    }
    return o + "\"";
}

int main() {
    Registry * reg = new Registry( SchemaInit );
    InstMgr * im = new InstMgr( 0 );
    // the referents of the ref kind: #1 is a TGT, #2 an OTHER
    SDAI_Application_instance * t1 = reg->ObjCreate( "Tgt" );
    t1->StepFileId( 1 );
    im->Append( t1, completeSE );
    SDAI_Application_instance * t2 = reg->ObjCreate( "Other" );
    t2->StepFileId( 2 );
    im->Append( t2, completeSE );
    std::string line;
    while( std::getline( std::cin, line ) ) {
        size_t a = line.find( '\t' ), b = line.find( '\t', a + 1 );
        if( a == std::string::npos || b == std::string::npos ) { printf( "{\"err\":\"bad request\"}\n" ); continue; }
        std::string kind = line.substr( 0, a ), tail = line.substr( a + 1, b - a - 1 ), tok = line.substr( b + 1 );
        std::string ent = "R_" + kind;
        ent[2] = toupper( ent[2] );
        for( size_t i = 3; i < ent.size(); i++ ) ent[i] = tolower( ent[i] );
        SDAI_Application_instance * inst = reg->ObjCreate( ent.c_str() );
        if( !inst || inst == ENTITY_NULL ) { printf( "{\"err\":\"no entity %s\"}\n", ent.c_str() ); continue; }
        STEPattribute & at = inst->attributes[1];
        std::istringstream in( tok + tail );
        Severity s = at.STEPread( in, im, 0, "kinds", true );
        // what is left in the stream: token separators (white space, comments) may be skipped, a delimiter may not
        for( ;; ) {
            in >> std::ws;
            if( in.peek() == '/' ) {
                std::streampos p0 = in.tellg();
                in.get();
                if( in.peek() == '*' ) {
                    int c, prev = 0;
                    in.get();
                    while( ( c = in.get() ) != EOF ) { if( prev == '*' && c == '/' ) break; prev = c; }
                    continue;
                }
                in.seekg( p0 );
            }
            break;
        }
        int nx = in.peek();
        std::ostringstream wr;
        at.STEPwrite( wr, "kinds" );       // the exchange-file form of the value
        std::string v = wr.str();
        printf( "{\"sev\":%d,\"esev\":%d,\"null\":%s,\"val\":%s,\"next\":%d", ( int ) s, ( int ) at.Error().severity(),
                at.is_null() ? "true" : "false", js( v ).c_str(), nx );
        if( kind == "int" && !at.is_null() && at.Integer() ) printf( ",\"i\":\"%ld\"", ( long ) * at.Integer() );
        if( ( kind == "real" || kind == "num" ) && !at.is_null() && at.Real() ) printf( ",\"r\":\"%.17g\"", ( double ) * at.Real() );
        printf( "}\n" );
        fflush( stdout );
        delete inst;
    }
    return 0;
}

// Lazy loader driver (links a generated schema library and libsteplazyfile).
//   lazy_drv <results-file>          commands on stdin, one JSON result line per command
// Commands:
//   scenario <tag>
//   open <path> <maxid>              new lazyInstMgr, scan the file; reports index (id, type name as in the file),
//                                    forward and reverse tables for ids 1..maxid
//   deps <id>                        instanceDependencies
//   load <id>                        loadInstance; reports the instance's serialisation, inverse attributes and the
//                                    loaded-instance count
//   eager <path>                     read the same file with STEPfile and report every instance's serialisation
#include "cllazyfile/lazyInstMgr.h"
#include "clstepcore/sdai.h"
#include "clstepcore/STEPattribute.h"
#include "clstepcore/ExpDict.h"
#include "clstepcore/Registry.h"
#include "clstepcore/STEPaggregate.h"
#include "cleditor/STEPfile.h"
#include "clstepcore/instmgr.h"
#include <cstdio>
#include <cstdlib>
#include <iostream>
#include <sstream>
#include <string>

extern void SchemaInit( class Registry & );

static std::string jstr( const std::string & s ) {
    std::string o = "\"";
    for( size_t i = 0; i < s.size(); i++ ) {
        unsigned char c = s[i];
        if( c == '"' || c == '\\' ) { o += '\\'; o += c; }
        else if( c == '\n' ) o += "\\n";
        else if( c < 0x20 ) { char b[8]; sprintf( b, "\\u%04x", c ); o += b; }
        else o += c;
    }
    return o + "\"";
}

static std::string ser( SDAI_Application_instance * inst ) {
    std::ostringstream os;
    inst->STEPwrite( os );
    std::string s = os.str();
    // one line, no trailing newline
    std::string o;
    for( size_t i = 0; i < s.size(); i++ ) if( s[i] != '\n' && s[i] != '\r' ) o += s[i];
    return o;
}

static void refsOut( FILE * res, const char * name, instanceRefs_t * t, unsigned long maxid ) {
    fprintf( res, ",\"%s\":[", name );
    bool first = true;
    for( unsigned long id = 0; id <= maxid; id++ ) {
        instanceRefs_t::cvector * v = t->find( id );
        if( !v ) continue;
        fprintf( res, "%s[%lu,[", first ? "" : ",", id );
        first = false;
        for( size_t k = 0; k < v->size(); k++ ) fprintf( res, "%s%lu", k ? "," : "", ( unsigned long ) v->at( k ) );
        fprintf( res, "]]" );
    }
    fprintf( res, "]" );
}

int main( int argc, char ** argv ) {
    if( argc < 2 ) return 2;
    FILE * res = fopen( argv[1], "w" );
    if( !res ) return 2;
    setvbuf( res, NULL, _IOLBF, 0 );
    lazyInstMgr * mgr = 0;
    std::string line;
    while( std::getline( std::cin, line ) ) {
        std::istringstream is( line );
        std::string cmd, a1, a2;
        is >> cmd >> a1 >> a2;
        if( cmd == "scenario" ) {
            fprintf( res, "{\"cmd\":\"scenario\",\"tag\":\"%s\"}\n", a1.c_str() );
        } else if( cmd == "open" ) {
            // the old manager is leaked on purpose (its destructor is not under test here)
            mgr = new lazyInstMgr;
            mgr->initRegistry( SchemaInit );
            mgr->openFile( a1 );
            unsigned long maxid = strtoul( a2.c_str(), 0, 10 );
            fprintf( res, "{\"cmd\":\"open\",\"total\":%lu,\"index\":[", mgr->totalInstanceCount() );
            bool first = true;
            // ids are probed through the public stream-position table accessor typeFromFile(); it complains on
            // stderr for unknown ids, which is not part of the protocol
            for( unsigned long id = 0; id <= maxid; id++ ) {
                std::streambuf * old = std::cerr.rdbuf( 0 );
                const char * t = mgr->typeFromFile( id );
                std::cerr.rdbuf( old );
                if( !t ) continue;
                fprintf( res, "%s[%lu,%s]", first ? "" : ",", id, jstr( t ).c_str() );
                first = false;
            }
            fprintf( res, "]" );
            refsOut( res, "fwd", mgr->getFwdRefs(), maxid );
            refsOut( res, "rev", mgr->getRevRefs(), maxid );
            fprintf( res, "}\n" );
        } else if( cmd == "deps" ) {
            instanceSet * d = mgr->instanceDependencies( strtoul( a1.c_str(), 0, 10 ) );
            fprintf( res, "{\"cmd\":\"deps\",\"id\":%s,\"set\":[", a1.c_str() );
            bool first = true;
            for( instanceSet::const_iterator it = d->begin(); it != d->end(); ++it ) {
                fprintf( res, "%s%lu", first ? "" : ",", ( unsigned long ) *it );
                first = false;
            }
            fprintf( res, "]}\n" );
            delete d;
        } else if( cmd == "load" ) {
            unsigned long id = strtoul( a1.c_str(), 0, 10 );
            SDAI_Application_instance * inst = mgr->loadInstance( id );
            if( !inst || inst == ENTITY_NULL ) {
                fprintf( res, "{\"cmd\":\"load\",\"id\":%lu,\"ok\":false,\"loaded\":%lu}\n", id, mgr->loadedInstanceCount() );
                continue;
            }
            fprintf( res, "{\"cmd\":\"load\",\"id\":%lu,\"ok\":true,\"fid\":%d,\"ser\":%s,\"loaded\":%lu,\"inv\":[", id,
                     inst->StepFileId(), jstr( ser( inst ) ).c_str(), mgr->loadedInstanceCount() );
            const SDAI_Application_instance::iAMap_t & m = inst->getInvAttrs();
            bool first = true;
            for( SDAI_Application_instance::iAMap_t::const_iterator it = m.begin(); it != m.end(); ++it ) {
                const Inverse_attribute * ia = it->first;
                fprintf( res, "%s{\"name\":%s,\"ids\":[", first ? "" : ",", jstr( ia->Name() ).c_str() );
                first = false;
                if( ia->IsAggrType() ) {
                    EntityAggregate * ea = it->second.a;
                    bool f2 = true;
                    if( ea ) for( EntityNode * en = ( EntityNode * ) ea->GetHead(); en; en = ( EntityNode * ) en->NextNode() ) {
                        fprintf( res, "%s%d", f2 ? "" : ",", en->node ? en->node->StepFileId() : -1 );
                        f2 = false;
                    }
                } else if( it->second.i ) {
                    fprintf( res, "%d", it->second.i->StepFileId() );
                }
                fprintf( res, "]}" );
            }
            fprintf( res, "]}\n" );
        } else if( cmd == "eager" ) {
            Registry * reg = new Registry( SchemaInit );
            InstMgr * im = new InstMgr( 0 );
            STEPfile * sf = new STEPfile( *reg, *im, "", false );
            sf->ReadExchangeFile( a1 );
            fprintf( res, "{\"cmd\":\"eager\",\"esev\":%d,\"insts\":[", ( int ) sf->Error().severity() );
            for( int k = 0; k < im->InstanceCount(); k++ ) {
                SDAI_Application_instance * a = im->GetApplication_instance( k );
                fprintf( res, "%s[%d,%s,%s]", k ? "," : "", a->StepFileId(), jstr( a->EntityName() ).c_str(), jstr( ser( a ) ).c_str() );
            }
            fprintf( res, "]}\n" );
        } else if( cmd == "quit" ) {
            break;
        }
    }
    fclose( res );
    return 0;
}

// STEPfile/InstMgr session driver (links a generated schema library).
//   session_drv <results-file>      commands on stdin, one JSON result line per command in <results-file>
// Commands:
//   scenario <tag>                  marker (echoed)
//   new <strict 0|1>                fresh registry view, instance manager and STEPfile
//   read|append|readws|appendws <path>
//   write|writews|writenv <path>     (writenv: exchange file without validation)
//   state <fileid> <complete|incomplete|new|delete>
//   states                          [[id,"state"],...] in manager order
// The driver only executes and reports; the written files are parsed by the harness' own Part 21 parser.
#include "clstepcore/sdai.h"
#include "cleditor/STEPfile.h"
#include "clstepcore/instmgr.h"
#include "clstepcore/Registry.h"
#include <cstdio>
#include <cstdlib>
#include <cstring>
#include <iostream>
#include <sstream>
#include <string>

extern void SchemaInit( class Registry & );

class TFile : public STEPfile {
    public:
        TFile( Registry & r, InstMgr & i, bool strict ) : STEPfile( r, i, "", strict ) {}
        int incr() { return _fileIdIncr; }
        int notCreated() { return _entsNotCreated; }
        int invalid() { return _entsInvalid; }
        int incomplete() { return _entsIncomplete; }
        int warning() { return _entsWarning; }
};

static const char * stName( stateEnum s ) {
    switch( s ) {
        case completeSE: return "complete";
        case incompleteSE: return "incomplete";
        case newSE: return "new";
        case deleteSE: return "delete";
        default: return "none";
    }
}
static stateEnum stOf( const std::string & s ) {
    if( s == "complete" ) return completeSE;
    if( s == "incomplete" ) return incompleteSE;
    if( s == "new" ) return newSE;
    if( s == "delete" ) return deleteSE;
    return noStateSE;
}

int main( int argc, char ** argv ) {
    if( argc < 2 ) { fprintf( stderr, "usage: session_drv <results-file>\n" ); return 2; }
    FILE * res = fopen( argv[1], "w" );
    if( !res ) return 2;
    setvbuf( res, NULL, _IOLBF, 0 );
    Registry * registry = new Registry( SchemaInit );
    InstMgr * im = 0;
    TFile * sf = 0;
    std::string line;
    while( std::getline( std::cin, line ) ) {
        std::istringstream is( line );
        std::string cmd, a1, a2;
        is >> cmd >> a1 >> a2;
        if( cmd == "scenario" ) {
            fprintf( res, "{\"cmd\":\"scenario\",\"tag\":\"%s\"}\n", a1.c_str() );
        } else if( cmd == "new" ) {
            if( sf ) delete sf;
            if( im ) { im->DeleteInstances(); delete im; }
            im = new InstMgr( 0 );
            sf = new TFile( *registry, *im, a1 == "1" );
            fprintf( res, "{\"cmd\":\"new\"}\n" );
        } else if( cmd == "read" || cmd == "append" || cmd == "readws" || cmd == "appendws" ) {
            Severity s;
            if( cmd == "read" ) s = sf->ReadExchangeFile( a1 );
            else if( cmd == "append" ) s = sf->AppendExchangeFile( a1 );
            else if( cmd == "readws" ) s = sf->ReadWorkingFile( a1 );
            else s = sf->AppendWorkingFile( a1 );
            fprintf( res, "{\"cmd\":\"%s\",\"sev\":%d,\"esev\":%d,\"incr\":%d,\"count\":%d,\"maxid\":%d,"
                     "\"notCreated\":%d,\"invalid\":%d,\"incomplete\":%d,\"warning\":%d}\n",
                     cmd.c_str(), ( int )s, ( int )sf->Error().severity(), sf->incr(), im->InstanceCount(), im->MaxFileId(),
                     sf->notCreated(), sf->invalid(), sf->incomplete(), sf->warning() );
        } else if( cmd == "write" || cmd == "writews" ) {
            Severity s = ( cmd == "write" ) ? sf->WriteExchangeFile( a1 ) : sf->WriteWorkingFile( a1 );
            fprintf( res, "{\"cmd\":\"%s\",\"sev\":%d,\"esev\":%d}\n", cmd.c_str(), ( int )s, ( int )sf->Error().severity() );
        } else if( cmd == "writenv" ) {     // exchange file without the completeness gate (projection of any session)
            Severity s = sf->WriteExchangeFile( a1, 0 );
            fprintf( res, "{\"cmd\":\"writenv\",\"sev\":%d,\"esev\":%d}\n", ( int )s, ( int )sf->Error().severity() );
        } else if( cmd == "state" ) {
            MgrNode * mn = im->FindFileId( atoi( a1.c_str() ) );
            if( mn ) im->ChangeState( mn, stOf( a2 ) );
            fprintf( res, "{\"cmd\":\"state\",\"found\":%s}\n", mn ? "true" : "false" );
        } else if( cmd == "states" ) {
            fprintf( res, "{\"cmd\":\"states\",\"list\":[" );
            for( int k = 0; k < im->InstanceCount(); k++ ) {
                MgrNode * mn = im->GetMgrNode( k );
                fprintf( res, "%s[%d,\"%s\"]", k ? "," : "", mn->GetFileId(), stName( mn->CurrState() ) );
            }
            fprintf( res, "]}\n" );
        } else if( cmd == "quit" ) {
            break;
        } else {
            fprintf( res, "{\"cmd\":\"?\",\"line\":\"unknown\"}\n" );
        }
    }
    fclose( res );
    return 0;
}

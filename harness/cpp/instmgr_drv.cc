// InstMgr driver.
//   replay <nobj>            : stdin = one history per line ("Act:obj:arg;..."), stdout = one projection line per history
//   rand <seed> <n> <len> <nobj> <maxexpl> : random call sequences on the real manager, one ndjson event per call
//                              (call + full observed projection incl. query results) for TLC trace validation
// The driver only executes and projects; every comparison is made against the TLA+ module's prediction.
#include "clstepcore/sdai.h"
#include "clstepcore/instmgr.h"
#include "clstepcore/ExpDict.h"
#include <cstdio>
#include <cstdlib>
#include <cstring>
#include <iostream>
#include <random>
#include <sstream>
#include <string>
#include <vector>

static const int MAXOBJ = 64;
static bool dead[MAXOBJ + 1];

struct TObj : public SDAI_Application_instance {
    int k;
    TObj( int kk ) : k( kk ) { dead[k] = false; }
    virtual ~TObj() { dead[k] = true; }
};

static EntityDescriptor * edA, * edB;
static const char * stName( stateEnum s ) {
    switch( s ) {
        case completeSE: return "complete";
        case incompleteSE: return "incomplete";
        case newSE: return "new";
        case deleteSE: return "delete";
        default: return "none";
    }
}
static stateEnum stOf( const std::string & s ) {
    if( s == "complete" ) return completeSE;
    if( s == "incomplete" ) return incompleteSE;
    if( s == "new" ) return newSE;
    if( s == "delete" ) return deleteSE;
    return noStateSE;
}

struct World {
    int nobj;
    InstMgr * im;
    std::vector<TObj *> obj; // 1-based
    World( int n ) : nobj( n ), im( 0 ), obj( n + 1, ( TObj * )0 ) {
        for( int i = 1; i <= n; i++ ) {
            obj[i] = new TObj( i );
            obj[i]->eDesc = ( i % 2 ) ? edA : edB;
        }
    }
    int which( SDAI_Application_instance * a ) {
        for( int i = 1; i <= nobj; i++ ) if( !dead[i] && obj[i] == a ) return i;
        return 0;
    }
    int indexOfNode( MgrNode * mn ) {
        if( !mn ) return 0;
        for( int k = 0; k < im->InstanceCount(); k++ ) if( im->GetMgrNode( k ) == mn ) return k + 1;
        return -1; // a node that is not in the array
    }
    // projection, as JSON fragment (also used as canonical replay output)
    std::string proj() {
        std::ostringstream o;
        int n = im->InstanceCount();
        o << "\"objs\":[";
        for( int k = 0; k < n; k++ ) o << ( k ? "," : "" ) << which( im->GetApplication_instance( k ) );
        o << "],\"ids\":[";
        for( int k = 0; k < n; k++ ) o << ( k ? "," : "" ) << im->GetMgrNode( k )->GetFileId();
        o << "],\"sts\":[";
        for( int k = 0; k < n; k++ ) o << ( k ? "," : "" ) << "\"" << stName( im->GetMgrNode( k )->CurrState() ) << "\"";
        o << "],\"idx\":[";   // GetIndex of the k-th node, 1-based
        for( int k = 0; k < n; k++ ) o << ( k ? "," : "" ) << im->GetIndex( im->GetMgrNode( k ) ) + 1;
        o << "],\"maxId\":" << im->MaxFileId() << ",\"freed\":[";
        bool first = true;
        for( int i = 1; i <= nobj; i++ ) if( dead[i] ) { o << ( first ? "" : "," ) << i; first = false; }
        o << "],\"find\":[";
        int top = im->MaxFileId() + 1; // ids 0 .. maxId+1
        for( int id = 0; id <= top; id++ ) o << ( id ? "," : "" ) << indexOfNode( im->FindFileId( id ) );
        o << "],\"ver\":[";   // VerifyEntity( id, "Alpha" ) for the same ids
        for( int id = 0; id <= top; id++ ) o << ( id ? "," : "" ) << im->VerifyEntity( id, "Alpha" );
        o << "],\"byA\":[";
        for( int f = 0; f <= n; f++ ) { SDAI_Application_instance * a = im->GetApplication_instance( "Alpha", f ); int r = 0; if( a != ENTITY_NULL ) { r = indexOfNode( im->FindFileId( a->StepFileId() ) ); if( r <= 0 || im->GetMgrNode( r - 1 )->GetApplication_instance() != a ) r = -2; } o << ( f ? "," : "" ) << r; }
        o << "],\"byB\":[";
        for( int f = 0; f <= n; f++ ) { SDAI_Application_instance * a = im->GetApplication_instance( "Beta_X", f ); int r = 0; if( a != ENTITY_NULL ) { r = indexOfNode( im->FindFileId( a->StepFileId() ) ); if( r <= 0 || im->GetMgrNode( r - 1 )->GetApplication_instance() != a ) r = -2; } o << ( f ? "," : "" ) << r; }
        o << "],\"kwA\":" << im->EntityKeywordCount( "Alpha" ) << ",\"kwB\":" << im->EntityKeywordCount( "Beta_X" );
        return o.str();
    }
    bool live( int o ) {
        if( dead[o] ) return false;
        for( int k = 0; k < im->InstanceCount(); k++ ) if( im->GetApplication_instance( k ) == obj[o] ) return true;
        return false;
    }
    // returns "" or a reason why the call cannot be made on the real object without undefined behaviour
    std::string apply( const std::string & act, int o, const std::string & arg ) {
        if( act == "New" ) {
            if( im ) delete im;
            im = new InstMgr( arg == "own" ? 1 : 0 );
            return "";
        }
        if( o > 0 && dead[o] ) return "object already destroyed";
        if( act == "SetId" ) obj[o]->StepFileId( atoi( arg.c_str() ) );
        else if( act == "Append" ) im->Append( obj[o], stOf( arg ) );
        else if( act == "Delete" ) {
            MgrNode * mn = im->FindFileId( obj[o]->StepFileId() );
            if( !mn || mn->GetApplication_instance() != obj[o] ) return "look-up by id does not return the live instance";
            if( arg == "node" ) im->Delete( mn ); else im->Delete( obj[o] );
        } else if( act == "ChangeState" ) {
            MgrNode * mn = im->FindFileId( obj[o]->StepFileId() );
            if( !mn || mn->GetApplication_instance() != obj[o] ) return "look-up by id does not return the live instance";
            im->ChangeState( mn, stOf( arg ) );
        } else if( act == "Clear" ) im->ClearInstances();
        else if( act == "DeleteAll" ) im->DeleteInstances();
        else if( act == "NextFileId" ) im->NextFileId();
        else return "unknown action " + act;
        return "";
    }
    void dispose() {
        if( im ) delete im;
        im = 0;
        for( int i = 1; i <= nobj; i++ ) if( !dead[i] ) delete obj[i];
    }
};

static int replay( int nobj ) {
    std::string line;
    while( std::getline( std::cin, line ) ) {
        World w( nobj );
        std::string bad;
        size_t p = 0;
        while( p < line.size() && bad.empty() ) {
            size_t e = line.find( ';', p ); if( e == std::string::npos ) e = line.size();
            std::string st = line.substr( p, e - p ); p = e + 1;
            size_t a = st.find( ':' ), b = st.find( ':', a + 1 );
            bad = w.apply( st.substr( 0, a ), atoi( st.substr( a + 1, b - a - 1 ).c_str() ), st.substr( b + 1 ) );
        }
        if( !bad.empty() ) printf( "{\"abort\":\"%s\"}\n", bad.c_str() );
        else printf( "{%s}\n", w.proj().c_str() );
        fflush( stdout );
        w.dispose();
    }
    return 0;
}

static int randrun( unsigned seed, int ntr, int len, int nobj, int maxexpl, int allstates ) {
    std::mt19937 rng( seed );
    setvbuf( stdout, NULL, _IOLBF, 0 );
    const char * stn[] = {"complete", "new", "incomplete", "delete"};
    for( int t = 0; t < ntr; t++ ) {
        World w( nobj );
        bool own = rng() % 2;
        printf( "{\"e\":\"Reset\"}\n" );
        w.apply( "New", 0, own ? "own" : "borrow" );
        printf( "{\"e\":\"New\",\"own\":%s,%s}\n", own ? "true" : "false", w.proj().c_str() );
        for( int s = 0; s < len; s++ ) {
            int op = rng() % 20, o = 1 + rng() % nobj;
            const char * sn = stn[rng() % ( allstates ? 4 : 2 )];
            std::ostringstream ev;
            if( op <= 3 ) {
                if( dead[o] || w.live( o ) ) continue;
                int id = 1 + rng() % maxexpl;
                w.apply( "SetId", o, std::to_string( id ) );
                ev << "\"e\":\"SetId\",\"o\":" << o << ",\"id\":" << id;
            } else if( op <= 10 ) {
                if( dead[o] ) continue;
                w.apply( "Append", o, sn );
                ev << "\"e\":\"Append\",\"o\":" << o << ",\"s\":\"" << sn << "\"";
            } else if( op <= 13 ) {
                if( !w.live( o ) ) continue;
                std::string r = w.apply( "Delete", o, ( rng() % 2 ) ? "node" : "inst" );
                if( !r.empty() ) { printf( "{\"e\":\"Abort\",\"why\":\"%s\"}\n", r.c_str() ); break; }
                ev << "\"e\":\"Delete\",\"o\":" << o;
            } else if( op <= 16 ) {
                if( !w.live( o ) ) continue;
                std::string r = w.apply( "ChangeState", o, sn );
                if( !r.empty() ) { printf( "{\"e\":\"Abort\",\"why\":\"%s\"}\n", r.c_str() ); break; }
                ev << "\"e\":\"ChangeState\",\"o\":" << o << ",\"s\":\"" << sn << "\"";
            } else if( op == 17 ) {
                if( rng() % 4 ) continue;
                int k = rng() % 3;
                if( k == 0 ) { w.apply( "Clear", 0, "" ); ev << "\"e\":\"Clear\""; }
                else if( k == 1 ) { w.apply( "DeleteAll", 0, "" ); ev << "\"e\":\"DeleteAll\""; }
                else { bool o2 = rng() % 2; w.apply( "New", 0, o2 ? "own" : "borrow" ); ev << "\"e\":\"New\",\"own\":" << ( o2 ? "true" : "false" ); }
            } else {
                w.apply( "NextFileId", 0, "" );
                ev << "\"e\":\"NextFileId\"";
            }
            printf( "{%s,%s}\n", ev.str().c_str(), w.proj().c_str() );
        }
        w.dispose();
    }
    return 0;
}

int main( int argc, char ** argv ) {
    // the library prints debug chatter on stdout in some paths: keep our protocol on the real stdout only
    Schema * sch = new Schema( "S" );
    edA = new EntityDescriptor( "Alpha", sch, LFalse, LFalse );
    edB = new EntityDescriptor( "Beta_X", sch, LFalse, LFalse );
    if( argc >= 3 && !strcmp( argv[1], "replay" ) ) return replay( atoi( argv[2] ) );
    if( argc >= 7 && !strcmp( argv[1], "rand" ) )
        return randrun( atoi( argv[2] ), atoi( argv[3] ), atoi( argv[4] ), atoi( argv[5] ), atoi( argv[6] ), argc > 7 ? atoi( argv[7] ) : 1 );
    fprintf( stderr, "usage: instmgr_drv replay <nobj> | rand <seed> <n> <len> <nobj> <maxexpl> [allstates]\n" );
    return 2;
}

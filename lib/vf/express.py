"""Rendering of abstract schemas (spec/Schema.tla records, as JSON) to EXPRESS text, and application of the
single-fault mutants of Schema!Mutants / Schema!LexMutants."""
import copy


def typeref(t):
    if t["agg"] == "none":
        return t["base"]
    hi = "?" if t["hi"] == -1 else str(t["hi"])
    return "%s [%d:%s] OF %s%s%s" % (t["agg"], t["lo"], hi, "OPTIONAL " if t["optelem"] else "",
                                     "UNIQUE " if t["uniq"] else "", typeref(t["inner"]) if "inner" in t else t["base"])


def tree(t):
    if t["k"] == "leaf":
        return t["e"]
    kids = [tree(k) for k in t["kids"]]
    if t["k"] == "oneof":
        return "ONEOF(" + ", ".join(kids) + ")"
    return "(" + (" AND " if t["k"] == "and" else " ANDOR ").join(kids) + ")"


def type_decl(t):
    if t["k"] == "enum":
        body = "ENUMERATION OF (" + ", ".join(t["items"]) + ")"
    elif t["k"] == "select":
        body = "SELECT (" + ", ".join(t["members"]) + ")"
    else:
        body = typeref(t["base"])
    return "TYPE %s = %s;\nEND_TYPE;\n" % (t["name"], body)


def entity_decl(e):
    head = "ENTITY " + e["name"]
    if e["abstract"] or e["sexpr"]["k"] != "none":
        head += "\n  " + ("ABSTRACT " if e["abstract"] else "") + "SUPERTYPE"
        if e["sexpr"]["k"] != "none":
            head += " OF (" + tree(e["sexpr"]) + ")"
    if e["supers"]:
        head += "\n  SUBTYPE OF (" + ", ".join(e["supers"]) + ")"
    out = [head + ";"]
    for r in e.get("redecl", []):          # redeclared inherited attributes stand before the entity's own
        out.append("  SELF\\%s.%s : %s%s;" % (r["of"], r["name"], "OPTIONAL " if r.get("opt") else "", typeref(r["ty"])))
    for a in e["attrs"]:
        out.append("  %s : %s%s;" % (a["name"], "OPTIONAL " if a["opt"] else "", typeref(a["ty"])))
    if e["derive"]:
        out.append("DERIVE")
        for d in e["derive"]:
            out.append("  %s : %s := %s;" % (d["name"], typeref(d["ty"]), d["expr"]))
    if e["inverse"]:
        out.append("INVERSE")
        for i in e["inverse"]:
            out.append("  %s : %s%s FOR %s;" % (i["name"], "SET [0:?] OF " if i["setof"] else "", i["ent"], i["attr"]))
    if e["uniq"]:
        out.append("UNIQUE")
        for u in e["uniq"]:
            out.append("  %s : %s;" % (u["label"], ", ".join(u["attrs"])))
    if e["where"]:
        out.append("WHERE")
        for w in e["where"]:
            out.append("  %s : %s;" % (w["label"], w["expr"]))
    out.append("END_ENTITY;")
    return "\n".join(out) + "\n"


def func_decl(f):
    ps = "; ".join("p%d : INTEGER" % (i + 1) for i in range(f["nparams"]))
    # (the result type is a defined type, so that the result of a call is a reference the resolver has to follow)
    return "FUNCTION %s(%s) : cnt;\n  RETURN (p1);\nEND_FUNCTION;\n" % (f["name"], ps)


AUX = "SCHEMA aux;\nTYPE remote_t = REAL;\nEND_TYPE;\nENTITY remote_e;\n  r1 : remote_t;\nEND_ENTITY;\nEND_SCHEMA;\n"


AUX3 = ("SCHEMA aux;\nUSE FROM aux2;\n%sEND_SCHEMA;\n\nSCHEMA aux2;\nTYPE remote_t = REAL;\nEND_TYPE;\nENTITY remote_e;\n  r1 : remote_t;\n"
        "END_ENTITY;\nEND_SCHEMA;\n")


def render(s, extra_head="", extra_body="", aux_body=""):
    out = ["SCHEMA %s;\n" % s["name"]]
    if s.get("aux"):
        out.append("USE FROM aux (remote_e);\nREFERENCE FROM aux (remote_t);\n")
    out.append(extra_head)
    for t in s["types"]:
        out.append(type_decl(t))
    for e in s["ents"]:
        out.append(entity_decl(e))
    for f in s["funcs"]:
        out.append(func_decl(f))
    out.append(extra_body)
    out.append("END_SCHEMA;\n")
    txt = "\n".join(x for x in out if x)
    if s.get("aux3"):
        txt += "\n" + AUX3 % aux_body
    elif s.get("aux"):
        txt += "\n" + AUX.replace("END_SCHEMA;", aux_body + "END_SCHEMA;")
    return txt


def mutate(s, m):
    """-> EXPRESS text of schema s with the single fault m applied."""
    s = copy.deepcopy(s)
    cl, at = m["class"], m["at"]
    E = s["ents"]
    head = body = ""
    post = None
    if m.get("pos") == "in_used_schema":
        aux_body = {"undef_type": "ENTITY broken;\n  x : nosuch_t;\nEND_ENTITY;\n",
                    "undef_supertype": "ENTITY broken\n  SUBTYPE OF (nosuch_e);\n  x : INTEGER;\nEND_ENTITY;\n",
                    "select_cycle": "TYPE s1 = SELECT (s2);\nEND_TYPE;\nTYPE s2 = SELECT (s1);\nEND_TYPE;\n"}[cl]
        return render(s, "", "", aux_body)
    if cl == "syntax_semicolon":
        post = lambda t: t.replace("%s : " % E[at - 1]["attrs"][0]["name"], "%s  " % E[at - 1]["attrs"][0]["name"], 1)
    elif cl == "syntax_keyword":
        post = lambda t: _nth_replace(t, "END_ENTITY;", "END_ENTTY;", at)
    elif cl == "undef_type":
        E[at - 1]["attrs"][0]["ty"]["base"] = "nosuch_t"
    elif cl == "undef_supertype":
        E[at - 1]["supers"] = ["nosuch_e"] + E[at - 1]["supers"][1:]
    elif cl == "undef_subtype":
        E[0]["sexpr"]["kids"][1] = {"k": "leaf", "e": "nosuch_e"}
    elif cl == "subtype_not_listing":
        if m.get("pos") == "indirect":
            E[0]["sexpr"] = {"k": "oneof", "kids": [{"k": "leaf", "e": E[1]["name"]}, {"k": "leaf", "e": E[2]["name"]}]}
        else:
            E[2]["supers"] = [x for x in E[2]["supers"] if x != "e1"]
    elif cl == "undef_schema":
        head = "USE FROM nosuch_s;\n"
    elif cl == "undef_function":
        E[0]["where"][0]["expr"] = "nosuch_f(a1) > 0"
    elif cl == "undef_attr_where":
        E[0]["where"][0]["expr"] = "nosuch_a > 0"
    elif cl == "undef_ref":
        INT = {"base": "INTEGER", "agg": "none", "lo": 0, "hi": 0, "uniq": False, "optelem": False}
        BOOL = dict(INT, base="BOOLEAN")
        pos = m["pos"]
        if pos.startswith("where_"):
            E[0]["where"] = E[0]["where"] + [{"label": "wu", "expr": {"where_left_rel": "nosuch_a > a1", "where_right_rel": "a1 > nosuch_a",
                                                                   "where_arith": "nosuch_a + a1 > 0"}[pos]}]
        elif pos == "rule_left_rel":
            body = "RULE ru FOR (e1);\nWHERE\n  wr : nosuch_a >= SIZEOF(e1);\nEND_RULE;\n"
        elif pos in ("type_string_width", "type_binary_width", "type_real_precision", "type_aggr_bound"):
            body = "TYPE tu = %s;\nEND_TYPE;\n" % {"type_string_width": "STRING(nosuch_a)", "type_binary_width": "BINARY(nosuch_a) FIXED",
                                                  "type_real_precision": "REAL(nosuch_a)", "type_aggr_bound": "LIST [1:nosuch_a] OF INTEGER"}[pos]
        elif pos in ("attr_string_width", "attr_aggr_bound"):
            body = "ENTITY eu;\n  item : %s;\nEND_ENTITY;\n" % {"attr_string_width": "STRING(nosuch_a)", "attr_aggr_bound": "ARRAY [nosuch_a:4] OF REAL"}[pos]
        elif pos == "local_string_width":
            body = ("FUNCTION fu(p1 : INTEGER) : BOOLEAN;\n  LOCAL\n    v : STRING(nosuch_a);\n  END_LOCAL;\n  RETURN (p1 > 0);\nEND_FUNCTION;\n")
        elif pos == "func_local_left_rel":
            body = ("FUNCTION fu(p1 : INTEGER) : BOOLEAN;\n  LOCAL\n    v : INTEGER := 1;\n  END_LOCAL;\n"
                    "  IF nosuch_a <= v THEN\n    RETURN (TRUE);\n  END_IF;\n  RETURN (p1 > v);\nEND_FUNCTION;\n")
        else:
            ex, ty = {"derive_left_rel": ("nosuch_a > 1", BOOL), "derive_right_rel": ("1 < nosuch_a", BOOL), "derive_plain": ("nosuch_a", INT),
                      "derive_in_left": ("nosuch_a IN [1, 2]", BOOL), "derive_in_right": ("a1 IN [nosuch_a, 2]", BOOL),
                      "derive_eq_left": ("nosuch_a = a1", BOOL), "derive_insteq_left": ("nosuch_a :=: a1", BOOL),
                      "derive_interval": ("{1 < nosuch_a < 3}", BOOL), "derive_neg": ("-nosuch_a", INT),
                      "derive_query": ("SIZEOF(QUERY(x <* [1, 2] | x > nosuch_a))", INT),
                      "derive_like_left": ("nosuch_a LIKE 'a?'", BOOL), "derive_arith_left": ("nosuch_a * 2", INT),
                      "derive_aggr_init": ("SIZEOF([1, nosuch_a])", INT), "derive_builtin_arg": ("ABS(nosuch_a)", INT),
                      "derive_index": ("nosuch_a[1]", INT), "derive_group": ("SELF\\e1.nosuch_a", INT)}[pos]
            E[0]["derive"] = E[0]["derive"] + [{"name": "du", "ty": ty, "expr": ex}]
    elif cl == "undef_attr_inverse":
        E[0]["inverse"][0]["attr"] = "nosuch_a"
    elif cl == "undef_attr_unique":
        E[0]["uniq"][0]["attrs"] = ["nosuch_a"]
    elif cl == "bad_inverse_type":
        E[0]["inverse"][0]["attr"] = "b2"      # e2.b2 is a STRING, not an e1
    elif cl == "dup_entity":
        body = entity_decl(E[at - 1])
    elif cl == "dup_attr":
        E[0]["attrs"].append(copy.deepcopy(E[0]["attrs"][0]))
    elif cl == "dup_type_entity":
        body = "TYPE e1 = INTEGER;\nEND_TYPE;\n"
    elif cl == "subtype_cycle":
        E[0]["supers"] = [E[1]["name"]]
        E[0]["sexpr"] = {"k": "none"}
        E[0]["abstract"] = False
        E[1]["supers"] = [E[0]["name"]]
    elif cl == "inherited_redeclared":
        INT = {"base": "INTEGER", "agg": "none", "lo": 0, "hi": 0, "uniq": False, "optelem": False}
        if m.get("pos") == "derive":
            E[1]["derive"] = E[1]["derive"] + [{"name": "a1", "ty": INT, "expr": "1"}]
        else:
            E[at - 1]["attrs"].append({"name": "a1", "ty": INT, "opt": False})
    elif cl == "select_cycle":
        pos = m.get("pos", "")
        use = "ENTITY eu;\n  item : s1;\nWHERE\n  wu : %s > 0;\nEND_ENTITY;\n"
        if pos.startswith("outside:"):
            nm = pos.split(":", 1)[1]
            body = ("TYPE shape_item = SELECT (curve_item, e1);\nEND_TYPE;\nTYPE curve_item = SELECT (shape_item, e2);\nEND_TYPE;\n"
                    "TYPE %s = SELECT (shape_item, e3);\nEND_TYPE;\n" % nm)
        elif pos == "":
            body = "TYPE s1 = SELECT (s2);\nEND_TYPE;\nTYPE s2 = SELECT (s1);\nEND_TYPE;\n"
        elif pos == "entity_first_dot":
            body = "TYPE s1 = SELECT (e1, s2);\nEND_TYPE;\nTYPE s2 = SELECT (e2, s1);\nEND_TYPE;\n" + use % "item.a1"
        elif pos == "select_first_dot":
            body = "TYPE s1 = SELECT (s2, e1);\nEND_TYPE;\nTYPE s2 = SELECT (s1, e2);\nEND_TYPE;\n" + use % "item.a1"
        elif pos == "entity_first_group":
            body = "TYPE s1 = SELECT (e1, s2);\nEND_TYPE;\nTYPE s2 = SELECT (e2, s1);\nEND_TYPE;\n" + use % "item\\e1.a1"
        else:
            body = ("TYPE s1 = SELECT (e1, s2);\nEND_TYPE;\nTYPE s2 = SELECT (e2, s3);\nEND_TYPE;\nTYPE s3 = SELECT (e3, s1);\nEND_TYPE;\n"
                    + use % "item.a1")
    elif cl == "lex_underscore_ident":
        E[0]["attrs"].append({"name": "_bad", "ty": {"base": "INTEGER", "agg": "none", "lo": 0, "hi": 0, "uniq": False, "optelem": False}, "opt": False})
    elif cl == "lex_unexpected_char":
        post = lambda t: t.replace("END_SCHEMA;", m["lexeme"] + " END_SCHEMA;", 1)
    elif cl == "lex_nonascii":
        post = lambda t: t.replace("ENTITY e1", "ENTITY ée1", 1)
    elif cl == "lex_bad_hex_digit":
        lit = {"last": "0000004" + m["lexeme"], "first": m["lexeme"] + "0000041", "middle": "000" + m["lexeme"] + "0041",
               "second_group": "0000004100" + m["lexeme"] + "00042"}[m.get("pos") or "last"]
        head = 'CONSTANT k1 : STRING := "%s"; END_CONSTANT;\n' % lit      # (constants come before the declarations)
    elif cl == "lex_bad_hex_count":
        head = 'CONSTANT k1 : STRING := "%s"; END_CONSTANT;\n' % ("0000004100000042000000430"[:int(m["lexeme"])])
    elif cl == "argcount":
        call = "f1x + 1" if m.get("pos") == "noargs" else "f1x(1, 2, 3)"
        body = "FUNCTION f1x(p1 : INTEGER) : INTEGER;\n  RETURN (p1);\nEND_FUNCTION;\nRULE r1 FOR (e1);\nWHERE\n  wr : %s > 0;\nEND_RULE;\n" % call
    elif cl == "include_missing":
        head = "INCLUDE 'nosuch_file.exp';\n" * (1 if m.get("pos") == "once" else 40)
    elif cl == "undef_use_item":
        head = "USE FROM ub (nosuch_e);\n"
        t = render(s, head, body)
        return t + ("\nSCHEMA ub;\nUSE FROM uc;\nENTITY eb;\n  y : INTEGER;\nEND_ENTITY;\nEND_SCHEMA;\n"
                    "\nSCHEMA uc;\nUSE FROM ub;\nENTITY ec;\n  y : INTEGER;\nEND_ENTITY;\nEND_SCHEMA;\n")
    elif cl == "type_cycle":
        pos = m.get("pos")
        body = {"two": "TYPE ta = tb;\nEND_TYPE;\nTYPE tb = ta;\nEND_TYPE;\n",
                "three": "TYPE ta = tb;\nEND_TYPE;\nTYPE tb = tc;\nEND_TYPE;\nTYPE tc = ta;\nEND_TYPE;\n",
                "self": "TYPE ta = ta;\nEND_TYPE;\n",
                "two_used": "TYPE ta = tb;\nEND_TYPE;\nTYPE tb = ta;\nEND_TYPE;\nENTITY eu;\n  item : ta;\n  more : LIST [0:?] OF tb;\nEND_ENTITY;\n"}[pos]
    else:
        raise ValueError(cl)
    t = render(s, head, body)
    t = post(t) if post else t
    if m.get("stretch"):
        import re
        t = re.sub(r"(?<![A-Za-z0-9_])%s(?![A-Za-z0-9_])" % re.escape(m["lexeme"]), m["lexeme"] + "x" * m["stretch"], t)
    return t


def _nth_replace(t, old, new, n):
    pos = -1
    for _ in range(n):
        pos = t.find(old, pos + 1)
        if pos < 0:
            return t.replace(old, new, 1)
    return t[:pos] + new + t[pos + len(old):]

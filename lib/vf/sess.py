"""Binding of the abstract Session module to the real STEPfile through the model schema schemas/sess.exp:
rendering abstract files as Part 21 text, projecting written files back to abstract populations, and running
command scripts on harness/cpp/session_drv.cc."""
import json
import os
import subprocess

from . import build, p21
from .common import VERIF, WORK, InfraError, mkdir

SCHEMA = os.path.join(VERIF, "schemas", "sess.exp")
DRV = os.path.join(VERIF, "harness", "cpp", "session_drv.cc")
LETTER = {"complete": "C", "incomplete": "I", "new": "N", "delete": "D"}
STATE = {v: k for k, v in LETTER.items()}


def driver(cfg="plain"):
    s = build.schema_lib("sess", open(SCHEMA).read(), cfg)
    return build.link_driver("session_drv", [DRV], cfg=cfg, schema=s)


def ref(x):
    return ("ref", x)


def inst_to_p21(x):
    """abstract instance -> p21 instance dict (see schemas/sess.exp)."""
    ty, r, v = x["ty"], x["refs"], x["v"]
    N = ("null",)
    if ty == "leaf":
        parts = [("LEAF", [("int", str(v)), N, N])]
    elif ty == "node":
        parts = [("NODE", [("int", str(v)), N, N, ref(r[0]) if r else N])]
    elif ty == "sn":
        parts = [("STRICT_NODE", [("int", str(v)), ref(r[0]) if r else N])]
    elif ty == "h_items":
        parts = [("HOLDER", [("list", [ref(i) for i in r]), N, N, N, N, N])]
    elif ty == "h_sel":
        parts = [("HOLDER", [("list", []), ref(r[0]) if r else N, N, N, N, N])]
    elif ty == "h_sels":
        parts = [("HOLDER", [("list", []), N, ("list", [ref(i) for i in r]), N, N, N])]
    elif ty == "h2_tl":      # typed select value holding a named aggregate of references
        parts = [("HOLDER2", [("typed", "LEAF_LIST", ("list", [ref(i) for i in r])), N])]
    elif ty == "h2_in":      # entity reference through a select nested in a select
        parts = [("HOLDER2", [ref(r[0]) if r else N, N])]
    elif ty == "h2_ps":      # aggregate of typed select values, each a named aggregate with one reference
        parts = [("HOLDER2", [N, ("list", [("typed", "LEAF_LIST", ("list", [ref(i)])) for i in r])])]
    elif ty == "cx":
        parts = [("BASE", [("int", str(v))]), ("PA", [ref(r[0]) if len(r) > 0 else N]),
                 ("PB", [ref(r[1]) if len(r) > 1 else N])]
    else:
        raise ValueError(ty)
    return dict(id=x["id"], state=x.get("st", "") if x.get("_ws") else "", parts=parts, complex=(ty == "cx"))


def file_text(F, working=False, sep=""):
    insts = []
    for x in F:
        d = inst_to_p21(x)
        if working:
            d["state"] = x["st"]
        insts.append(d)
    return p21.render_file("sess", insts, working=working, sep=sep)


def _refs(vals):
    out = []
    for v in vals:
        if v[0] == "ref":
            out.append(v[1])
        elif v[0] == "typed" and v[2][0] == "ref":
            out.append(v[2][1])
        else:
            raise ValueError("not a reference: " + p21.render_value(v))
    return out


def p21_to_inst(d, st=None):
    """p21 instance dict -> abstract instance; anything that does not fit the model schema's shapes is kept as a
    descriptive string so that it can never compare equal to a prediction."""
    parts = d["parts"]
    kws = [p[0] for p in parts]
    s = st if st is not None else (d.get("state") or "C")
    try:
        if kws == ["LEAF"]:
            a = parts[0][1]
            if a[1] != ("null",) or a[2] != ("null",):
                raise ValueError
            return dict(id=d["id"], ty="leaf", v=int(a[0][1]), refs=[], st=s)
        if kws == ["NODE"]:
            a = parts[0][1]
            if a[1] != ("null",) or a[2] != ("null",):
                raise ValueError
            return dict(id=d["id"], ty="node", v=int(a[0][1]), refs=[] if a[3] == ("null",) else _refs([a[3]]), st=s)
        if kws == ["STRICT_NODE"]:
            a = parts[0][1]
            return dict(id=d["id"], ty="sn", v=int(a[0][1]), refs=[] if a[1] == ("null",) else _refs([a[1]]), st=s)
        if kws == ["HOLDER"]:
            a = parts[0][1]
            items = a[0][1] if a[0][0] == "list" else None
            if items is None or any(x != ("null",) for x in a[3:]):
                raise ValueError
            if a[1] != ("null",):
                if items or a[2] != ("null",):
                    raise ValueError
                return dict(id=d["id"], ty="h_sel", v=0, refs=_refs([a[1]]), st=s)
            if a[2] != ("null",):
                if items or a[2][0] != "list":
                    raise ValueError
                return dict(id=d["id"], ty="h_sels", v=0, refs=_refs(a[2][1]), st=s)
            return dict(id=d["id"], ty="h_items", v=0, refs=_refs(items), st=s)
        if kws == ["HOLDER2"]:
            a = parts[0][1]
            if a[0] != ("null",) and a[1] == ("null",):
                if a[0][0] == "typed" and a[0][1] == "LEAF_LIST" and a[0][2][0] == "list":
                    return dict(id=d["id"], ty="h2_tl", v=0, refs=_refs(a[0][2][1]), st=s)
                return dict(id=d["id"], ty="h2_in", v=0, refs=_refs([a[0]]), st=s)
            if a[0] == ("null",) and a[1][0] == "list":
                rr = []
                for x in a[1][1]:
                    if not (x[0] == "typed" and x[1] == "LEAF_LIST" and x[2][0] == "list" and len(x[2][1]) == 1):
                        raise ValueError
                    rr += _refs(x[2][1])
                return dict(id=d["id"], ty="h2_ps", v=0, refs=rr, st=s)
            raise ValueError
        if sorted(kws) == ["BASE", "PA", "PB"]:
            m = {k: v for k, v in parts}
            ra, rb = m["PA"][0], m["PB"][0]
            refs = []
            if ra != ("null",):
                refs += _refs([ra])
                if rb != ("null",):
                    refs += _refs([rb])
            elif rb != ("null",):
                raise ValueError
            return dict(id=d["id"], ty="cx", v=int(m["BASE"][0][1]), refs=refs, st=s)
    except (ValueError, IndexError, KeyError, TypeError):
        pass
    return dict(id=d["id"], ty="?" + p21.render_instance(d), v=0, refs=[], st=s)


def _gen_value(v, refs):
    """normalised text of a parsed Part 21 value with references replaced by '#' (collected, in order, in refs)"""
    t = v[0]
    if t == "null":
        return "$"
    if t == "derived":
        return "*"
    if t == "int":
        return str(int(v[1]))
    if t == "real":
        return repr(float(v[1]))
    if t == "str":
        return "'" + v[1] + "'"
    if t == "bin":
        return '"' + v[1].upper() + '"'
    if t == "enum":
        return "." + v[1].upper() + "."
    if t == "ref":
        refs.append(v[1])
        return "#"
    if t == "typed":
        return "%s(%s)" % (v[1].upper(), _gen_value(v[2], refs))
    if t == "list":
        return "(" + ",".join(_gen_value(x, refs) for x in v[1]) + ")"
    return "?%r" % (v,)


def generic_inst(d, st=None):
    """any p21 instance -> abstract instance of spec/Session.tla: ty = its keyword(s), v = its parameter text with
    references blanked, refs = the references in order of appearance"""
    refs = []
    v = ";".join("%s(%s)" % (kw, ",".join(_gen_value(x, refs) for x in ps)) for kw, ps in d["parts"])
    return dict(id=d["id"], ty="+".join(kw for kw, _ in d["parts"]), v=v, refs=refs, st=st if st is not None else (d.get("state") or "C"))


def project_generic(text_or_path, states=None, is_text=False):
    try:
        d = p21.parse(text_or_path if is_text else open(text_or_path, errors="replace").read())
    except (p21.P21Error, OSError) as ex:
        return [dict(id=0, ty="?unparsable output: %s" % ex, v="", refs=[], st="?")]
    pop = []
    for k, x in enumerate(d["data"]):
        st = None
        if states is not None:
            st = LETTER.get(states[k][1], "?") if k < len(states) and states[k][0] == x["id"] else "?"
        pop.append(generic_inst(x, st))
    if states is not None and len(states) != len(pop):
        pop.append(dict(id=0, ty="?manager holds %d instances, file %d" % (len(states), len(pop)), v="", refs=[], st="?"))
    return pop


def project(path, states=None):
    """Written exchange/working file -> abstract population.  states: list of [id, state] from the driver
    (manager order) to attach states to an exchange file's instances."""
    try:
        d = p21.parse(open(path, errors="replace").read())
    except (p21.P21Error, OSError) as ex:
        return [dict(id=0, ty="?unparsable output: %s" % ex, v=0, refs=[], st="?")]
    pop = []
    for k, x in enumerate(d["data"]):
        st = None
        if states is not None:
            st = LETTER.get(states[k][1], "?") if k < len(states) and states[k][0] == x["id"] else "?"
        pop.append(p21_to_inst(x, st))
    if states is not None and len(states) != len(pop):
        pop.append(dict(id=0, ty="?manager holds %d instances, file %d" % (len(states), len(pop)), v=0, refs=[], st="?"))
    return pop


def run_scripts(drv, scripts, workdir, timeout=600, env=None):
    """scripts: list of (tag, [command lines]).  Runs them in one driver process (restarting after a crash).
    Returns {tag: [result dicts]} ; a crashed scenario has a final {'cmd':'crash','rc':..} entry."""
    mkdir(workdir)
    results = {}
    todo = list(scripts)
    rnd = 0
    while todo:
        rnd += 1
        resf = os.path.join(workdir, "res-%d-%d.jsonl" % (os.getpid(), rnd))
        inp = []
        for tag, lines in todo:
            inp.append("scenario %s" % tag)
            inp.extend(lines)
        inp.append("quit")
        try:
            p = subprocess.run([drv, resf], input="\n".join(inp) + "\n", stdout=subprocess.DEVNULL,
                               stderr=subprocess.PIPE, text=True, timeout=timeout, env=env, errors="replace")
            rc, err = p.returncode, p.stderr[-3000:]
        except subprocess.TimeoutExpired:
            rc, err = 124, "timeout"
        cur = None
        seen = []
        for ln in open(resf, errors="replace"):
            try:
                r = json.loads(ln)
            except ValueError:
                continue
            if r.get("cmd") == "scenario":
                cur = r["tag"]
                seen.append(cur)
                results[cur] = []
            elif cur is not None:
                results[cur].append(r)
        os.unlink(resf)
        expected = {tag: len(lines) for tag, lines in todo}
        if rc == 0 and len(seen) == len(todo):
            break
        # the driver died inside scenario seen[-1] (or before the first)
        if not seen:
            raise InfraError("session driver failed before the first scenario: rc=%s %s" % (rc, err))
        last = seen[-1]
        if rc == 0 and len(results[last]) >= expected[last]:
            raise InfraError("session driver ended early without failing")
        results[last].append({"cmd": "crash", "rc": rc, "stderr": err[-1500:]})
        idx = [t for t, _ in todo].index(last)
        todo = todo[idx + 1:]
    return results

"""Token separators of Part 21 files, as listed by spec/P21Sep.tla (obtained from TLC once per process)."""
import itertools

from . import tlc
from .common import InfraError

_cache = {}


def load():
    if not _cache:
        out = []
        r = tlc.run_tlc("P21Sep", "P21Sep.cfg", workers=1, timeout=120, on_case=out.append)
        if r.rc != 0 or r.errors or len(out) != 1:
            raise InfraError("P21Sep did not list the separators: %s" % r.tail[-8:])
        # every separator must consist of blanks and complete comments only (TLC strings are atomic, so the module
        # cannot check that a comment body is free of the closing pair itself)
        import re
        for kind, L in out[0].items():
            for x in L:
                if not re.fullmatch(r"(?:\s|/\*(?:(?!\*/).)*?\*/)+", x, flags=re.S):
                    raise InfraError("P21Sep lists %r, which is not a sequence of token separators" % x)
        _cache.update(out[0])
    return _cache


class Spacer:
    """hands out the separators of one class in rotation, starting at `start`"""

    def __init__(self, kind="comments", start=0):
        L = load()[kind]
        self.it = itertools.cycle(L[start % len(L):] + L[:start % len(L)])

    def __call__(self):
        return next(self.it)

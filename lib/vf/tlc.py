"""TLC runner: design checking, behaviour generation (@@CASE lines) and trace validation."""
import json
import os
import re
import shutil
import subprocess
import threading
import time

from .common import SPEC, WORK, InfraError, log, mkdir

JAR = "/opt/veriftools/tla/tla2tools.jar"
CM = "/opt/veriftools/tla/CommunityModules-deps.jar"

_re_stats = re.compile(r"^(\d+) states generated, (\d+) distinct states found, (\d+) states left on queue")
_re_depth = re.compile(r"The depth of the complete state graph search is (\d+)")
_re_inv = re.compile(r"Error: Invariant (\S+) is violated")
_re_prop = re.compile(r"Error: (Temporal properties were violated|Action property (\S+)? ?.*violated)")
_re_simstats = re.compile(r"The number of states generated: (\d+)")

_counter = [0]
_lock = threading.Lock()


class TlcResult:
    def __init__(self):
        self.rc = None
        self.generated = 0
        self.distinct = 0
        self.queue = 0
        self.depth = 0
        self.violated = []      # names of violated invariants / properties
        self.post_violated = False
        self.deadlock = False
        self.errors = []        # other "Error:" lines
        self.tail = []
        self.wall = 0.0
        self.cases = 0
        self.coverage = {}      # action name -> (taken, generated) when -coverage was on

    @property
    def ok(self):
        return self.rc == 0 and not self.violated and not self.post_violated and not self.errors

    def summary(self):
        return dict(rc=self.rc, generated=self.generated, distinct=self.distinct, depth=self.depth,
                    violated=self.violated, post_violated=self.post_violated, wall_s=round(self.wall, 2))


def _metadir(tag):
    with _lock:
        _counter[0] += 1
        n = _counter[0]
    d = os.path.join(WORK, "tlc", "%s-%d-%d" % (tag, os.getpid(), n))
    shutil.rmtree(d, ignore_errors=True)
    mkdir(d)
    return d


def run_tlc(module, cfg, workers=4, timeout=900, env=None, simulate=None, depth=None, seed=None, on_case=None,
            coverage=False, xmx="8g", dfs=False, extra=(), keep_output=False, cfg_text=None):
    """Run TLC on spec/<module>.tla with config spec/<cfg> (or cfg_text written to the metadir).
    on_case(obj) is called for each '@@CASE <json>' PrintT line.  Returns TlcResult."""
    meta = _metadir(module)
    if cfg_text is not None:
        cfgpath = os.path.join(meta, module + ".cfg")
        with open(cfgpath, "w") as f:
            f.write(cfg_text)
    else:
        cfgpath = os.path.join(SPEC, cfg)
    # (TLC leaves an empty tlc-<n> directory in the JVM's temporary directory on every run: keep it inside the metadir,
    # which is removed below, so that nothing accumulates under /tmp)
    jopts = ["-XX:+UseParallelGC", "-Xmx" + xmx, "-Djava.io.tmpdir=" + mkdir(os.path.join(meta, "tmp"))]
    if dfs:
        jopts.append("-Dtlc2.tool.queue.IStateQueue=StateDeque")
    cmd = ["java"] + jopts + ["-cp", JAR + ":" + CM, "tlc2.TLC", "-workers", str(workers), "-metadir", meta,
                              "-noGenerateSpecTE", "-config", cfgpath]
    if simulate is not None:
        cmd += ["-simulate", "num=%d" % simulate]
        if depth:
            cmd += ["-depth", str(depth)]
    if seed is not None:
        cmd += ["-seed", str(seed)]
    if coverage:
        cmd += ["-coverage", "1"]
    cmd += list(extra) + [os.path.join(SPEC, module + ".tla")]
    e = dict(os.environ)
    e.pop("JAVA_TOOL_OPTIONS", None)
    if env:
        e.update(env)
    res = TlcResult()
    t0 = time.time()
    proc = subprocess.Popen(cmd, cwd=SPEC, env=e, stdout=subprocess.PIPE, stderr=subprocess.STDOUT, text=True,
                            errors="replace", bufsize=1 << 20)
    timer = threading.Timer(timeout, proc.kill)
    timer.start()
    out_all = [] if keep_output else None
    try:
        for line in proc.stdout:
            line = line.rstrip("\n")
            if line.startswith('"@@CASE '):
                res.cases += 1
                if on_case:
                    try:
                        s = json.loads(line)
                        on_case(json.loads(s[7:]))
                    except Exception as ex:  # malformed line = infrastructure problem
                        res.errors.append("bad @@CASE line: %r (%s)" % (line[:200], ex))
                continue
            if out_all is not None:
                out_all.append(line)
            res.tail.append(line)
            if len(res.tail) > 60:
                res.tail.pop(0)
            m = _re_stats.match(line)
            if m:
                res.generated, res.distinct, res.queue = int(m.group(1)), int(m.group(2)), int(m.group(3))
                continue
            m = _re_depth.search(line)
            if m:
                res.depth = int(m.group(1))
                continue
            m = _re_simstats.search(line)
            if m:
                res.generated = max(res.generated, int(m.group(1)))
                continue
            m = _re_inv.search(line)
            if m:
                res.violated.append(m.group(1))
                continue
            if "Temporal properties were violated" in line:
                res.violated.append("<temporal>")
                continue
            m = re.search(r"Error: Action property (.*) is violated", line)
            if m:
                res.violated.append(m.group(1).strip())
                continue
            if "Deadlock reached" in line:
                res.deadlock = True
                continue
            if re.search(r"[Pp]ostcondition .*(violated|false)", line) or "The postcondition" in line:
                res.post_violated = True
                continue
            if line.startswith("Error:") and "The behavior up to this point" not in line \
                    and "The following behavior constitutes" not in line:
                res.errors.append(line)
            if coverage:
                m = re.match(r"^<(\w+) line \d+, col \d+ to line \d+, col \d+ of module \w+>: (\d+):(\d+)", line)
                if m:
                    t, g = res.coverage.get(m.group(1), (0, 0))
                    res.coverage[m.group(1)] = (t + int(m.group(2)), g + int(m.group(3)))
        proc.wait()
    finally:
        timer.cancel()
        if proc.poll() is None:
            proc.kill()
    res.rc = proc.returncode
    res.wall = time.time() - t0
    res.output = out_all
    shutil.rmtree(meta, ignore_errors=True)
    if res.rc in (-9, 137):
        raise InfraError("TLC timed out or was killed after %ds on %s" % (timeout, module))
    return res


def check_design(module, cfg, **kw):
    """Design check; raises InfraError if TLC itself failed (parse error etc.)."""
    r = run_tlc(module, cfg, **kw)
    if r.rc != 0 and not r.violated and not r.deadlock and not r.post_violated:
        raise InfraError("TLC failed on %s/%s rc=%s:\n%s" % (module, cfg, r.rc, "\n".join(r.tail[-25:])))
    return r


def validate_trace(module, cfg, trace_path, timeout=600, dfs=False, xmx="4g", env=None, cfg_text=None):
    """Trace validation: TRACE=<path> in the environment, POSTCONDITION decides.
    Returns (accepted: bool, matched_prefix: int, result)."""
    e = {"TRACE": trace_path}
    if env:
        e.update(env)
    r = run_tlc(module, cfg, workers=1, timeout=timeout, env=e, dfs=dfs, xmx=xmx, cfg_text=cfg_text)
    if r.rc != 0 and not r.post_violated and not r.violated:
        raise InfraError("TLC failed validating %s rc=%s:\n%s" % (trace_path, r.rc, "\n".join(r.tail[-25:])))
    accepted = (r.rc == 0 and not r.post_violated and not r.violated)
    return accepted, max(0, r.depth - 1), r


def validate_segments(module, cfg, segments, workdir, tag="seg", max_events=15000, cap=12, dfs=False,
                      cfg_text=None, timeout=900, parallel=4):
    """Validate independent executions (each a list of ndjson lines, beginning with a Reset event).
    Returns (n_accepted_segments, rejections) where a rejection is dict(segment=index, event=index in segment
    of the first event TLC could not explain, line=that event).  A rejection is only reported when validating
    the segment on its own rejects it again."""
    import concurrent.futures as cf
    mkdir(workdir)
    # pack segments into files
    files, cur, n = [], [], 0
    for i, seg in enumerate(segments):
        if cur and n + len(seg) > max_events:
            files.append(cur)
            cur, n = [], 0
        cur.append(i)
        n += len(seg)
    if cur:
        files.append(cur)
    rejections = []
    accepted = [0]
    lock = threading.Lock()

    def write(path, idxs):
        with open(path, "w") as f:
            for i in idxs:
                for ln in segments[i]:
                    f.write(ln.rstrip("\n") + "\n")

    def one_file(fi, idxs):
        path = os.path.join(workdir, "%s-%d.ndjson" % (tag, fi))
        todo = list(idxs)
        while todo:
            write(path, todo)
            ok, matched, r = validate_trace(module, cfg, path, dfs=dfs, cfg_text=cfg_text, timeout=timeout)
            if ok:
                with lock:
                    accepted[0] += len(todo)
                break
            # locate the segment holding event number matched+1 (1-based)
            pos, hit = 0, None
            for k, i in enumerate(todo):
                if matched < pos + len(segments[i]):
                    hit = k
                    break
                pos += len(segments[i])
            if hit is None:      # rejected although every line matched: treat as infrastructure problem
                raise InfraError("trace %s rejected beyond its end (matched %d)" % (path, matched))
            i = todo[hit]
            single = os.path.join(workdir, "%s-%d-single.ndjson" % (tag, fi))
            write(single, [i])
            ok2, m2, _ = validate_trace(module, cfg, single, dfs=dfs, cfg_text=cfg_text, timeout=timeout)
            with lock:
                accepted[0] += hit
                if not ok2:
                    ev = segments[i][m2] if m2 < len(segments[i]) else ""
                    rejections.append(dict(segment=i, event=m2, line=ev))
                else:
                    accepted[0] += 1     # not repeatable: not reported
            todo = todo[hit + 1:]
            with lock:
                if len(rejections) >= cap:
                    break
        for p in (path, os.path.join(workdir, "%s-%d-single.ndjson" % (tag, fi))):
            if os.path.exists(p):
                os.unlink(p)

    with cf.ThreadPoolExecutor(max_workers=parallel) as ex:
        list(ex.map(lambda a: one_file(*a), enumerate(files)))
    return accepted[0], rejections

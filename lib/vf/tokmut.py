"""Single-token mutants of a rendered EXPRESS text (spec/TokMut.tla): tokenizing, classification of identifier
positions, and assembling the mutants TLC describes."""
import json
import os
import re

from . import tlc
from .common import InfraError, mkdir, sha

TOK = re.compile(r"""\(\*.*?\*\)|--[^\n]*|'(?:[^'\n]|'')*'|"[^"\n]*"|%[01]+|[A-Za-z][A-Za-z0-9_]*|\d+\.\d*(?:[eE][+-]?\d+)?|\d+|:<>:|:=:|:=|<=|>=|<>|<\*|\|\||\*\*|\S""", re.S)
DECL_KW = {"ENTITY", "TYPE", "FUNCTION", "PROCEDURE", "RULE", "SCHEMA", "SUBTYPE_CONSTRAINT", "ALIAS", "REPEAT"}
REPL = {0: "nosuch_x", -1: "END_ENTITY", -2: "7"}


def tokenize(text):
    """[(kind, spelling, using)]"""
    raw = [t for t in TOK.findall(text) if not t.startswith(("(*", "--"))]
    out = []
    in_enum = 0
    for j, t in enumerate(raw):
        prev = raw[j - 1] if j else ""
        nxt = raw[j + 1] if j + 1 < len(raw) else ""
        if t == "ENUMERATION":
            in_enum = 1
        elif in_enum and t == ")":
            in_enum = 0
        if re.match(r"[A-Za-z]", t):
            if t.upper() == t and not re.search(r"\d", t):
                out.append(("kw", t, False))
            else:
                using = not (prev in DECL_KW or nxt in (":", "<*") or in_enum or (nxt == "," and _decl_list(raw, j)))
                out.append(("id", t, using))
        elif t[0] in "'\"%" or t[0].isdigit():
            out.append(("lit", t, False))
        else:
            out.append(("op", t, False))
    return out


def _decl_list(raw, j):
    """an identifier followed by ',' belongs to a declaration list 'a, b : T' if a ':' follows the list before any
    other kind of token"""
    k = j + 1
    while k + 1 < len(raw) and raw[k] == "," and re.match(r"[A-Za-z]", raw[k + 1]):
        k += 2
    return k < len(raw) and raw[k] == ":" and all(re.match(r"[A-Za-z]", raw[x]) or raw[x] == "," for x in range(j, k))


def join(toks):
    """one statement per line (diagnostics keep meaningful line numbers)"""
    out, line = [], []
    for t in toks:
        line.append(t)
        if t == ";":
            out.append(" ".join(line))
            line = []
    if line:
        out.append(" ".join(line))
    return "\n".join(out) + "\n"


EXPRESS_INS = ["(", ")", ";", ":", ",", "'", "(*", "*)", "--", ".", "\\", "[", "]", "END_TYPE"]


def edits(pieces, ins, work, key, stride=1):
    """TLC's single-edit mutants of a piece sequence: [dict(op, i, p, expect, seq)] with seq = list of spellings"""
    hs = {}
    d = mkdir(os.path.join(work, "tokmut"))
    tp = os.path.join(d, "toks-%s.ndjson" % key)
    ip = os.path.join(d, "ins-%s.ndjson" % key)
    with open(tp, "w") as f:
        for k, s, u in pieces:
            f.write(json.dumps({"k": k, "u": u, "h": hs.setdefault(s, len(hs) + 1)}) + "\n")
    with open(ip, "w") as f:
        for s in ins:
            f.write(json.dumps({"h": hs.setdefault(s, len(hs) + 1)}) + "\n")
    got = []
    r = tlc.run_tlc("TokMut", None, workers=4, timeout=900, env={"TOKS": tp, "INS": ip}, on_case=got.append,
                    cfg_text="CONSTANT Stride = %d\nINIT Init\nNEXT Next\nINVARIANT Emit\nINVARIANT SaneInv\n" % stride)
    if r.rc != 0 or r.errors or r.violated or not got:
        raise InfraError("TokMut failed: rc=%s %s" % (r.rc, r.tail[-10:]))
    os.unlink(tp)
    os.unlink(ip)
    sp = [s for _, s, _ in pieces]

    def spell(x):
        return sp[x - 1] if x > 0 else REPL[x] if x > -10 else ins[-x - 11]
    out = []
    for c in got:
        e = c["edit"]
        seq = sp[:e["at"] - 1] + [spell(x) for x in e["put"]] + sp[e["at"] - 1 + e["drop"]:]
        out.append({"op": c["op"], "i": c["i"], "p": c["p"], "expect": c["expect"], "seq": seq})
    out.sort(key=lambda m: (m["op"], m["i"], m["p"]))
    return out, sp


def mutants(text, work, with_ins=True, stride=1):
    """[dict(op, i, expect, text, ctx, tok)] for every single-token mutant of an EXPRESS text (every stride-th position)"""
    toks = tokenize(text)
    got, sp = edits(toks, EXPRESS_INS if with_ins else [], work, sha(text)[:10], stride)
    out = []
    for m in got:
        i = m["i"]
        out.append({"op": m["op"] + ("_%d" % m["p"] if m["op"] == "ins" else ""), "i": i, "expect": m["expect"], "text": join(m["seq"]),
                    "ctx": " ".join(sp[max(0, i - 3):i + 2]), "tok": sp[i - 1] if i <= len(sp) else ""})
    return out


def char_mutants(text, start, ins, work):
    """single-character edits of text[start:]: [(op, i, p, new text)]"""
    pieces = [("op", ch, False) for ch in text[start:]]
    got, sp = edits(pieces, ins, work, sha(text)[:10])
    return [(m["op"], m["i"], m["p"], text[:start] + "".join(m["seq"])) for m in got]


P21TOK = re.compile(r"""'(?:[^']|'')*'|"[^"]*"|/\*.*?\*/|#\d+|[A-Za-z_][A-Za-z0-9_]*|\.[A-Za-z_0-9]+\.|[+-]?\d+\.\d*(?:E[+-]?\d+)?|[+-]?\d+|\S""", re.S)
P21_INS = ["(", ")", ",", ";", "'", "$", "*", "#", "=", "/*", "*/", "&SCOPE", "ENDSEC", "!"]


def p21_token_mutants(text, start, end, work, with_ins=True):
    """single-token edits of the DATA section text[start:end] of a Part 21 file: [(op, i, p, new text)]"""
    toks = P21TOK.findall(text[start:end])
    got, sp = edits([("op", t, False) for t in toks], P21_INS if with_ins else [], work, "p" + sha(text)[:9])
    return [(m["op"], m["i"], m["p"], text[:start] + " ".join(m["seq"]).replace(" ; ", ";\n") + "\n" + text[end:]) for m in got
            if m["op"] not in ("undecl", "tokw", "tolit")]

"""Single-token mutants of a rendered EXPRESS text (spec/TokMut.tla): tokenizing, classification of identifier
positions, and assembling the mutants TLC describes."""
import json
import os
import re

from . import tlc
from .common import InfraError, mkdir, sha

TOK = re.compile(r"""\(\*.*?\*\)|--[^\n]*|'(?:[^'\n]|'')*'|"[^"\n]*"|%[01]+|[A-Za-z][A-Za-z0-9_]*|\d+\.\d*(?:[eE][+-]?\d+)?|\d+|:<>:|:=:|:=|<=|>=|<>|<\*|\|\||\*\*|\S""", re.S)
DECL_KW = {"ENTITY", "TYPE", "FUNCTION", "PROCEDURE", "RULE", "SCHEMA", "SUBTYPE_CONSTRAINT", "ALIAS", "REPEAT"}
REPL = {0: "nosuch_x", -1: "END_ENTITY", -2: "7"}


def tokenize(text):
    """[(kind, spelling, using)]"""
    raw = [t for t in TOK.findall(text) if not t.startswith(("(*", "--"))]
    out = []
    in_enum = 0
    for j, t in enumerate(raw):
        prev = raw[j - 1] if j else ""
        nxt = raw[j + 1] if j + 1 < len(raw) else ""
        if t == "ENUMERATION":
            in_enum = 1
        elif in_enum and t == ")":
            in_enum = 0
        if re.match(r"[A-Za-z]", t):
            if t.upper() == t and not re.search(r"\d", t):
                out.append(("kw", t, False))
            else:
                using = not (prev in DECL_KW or nxt in (":", "<*") or in_enum or (nxt == "," and _decl_list(raw, j)))
                out.append(("id", t, using))
        elif t[0] in "'\"%" or t[0].isdigit():
            out.append(("lit", t, False))
        else:
            out.append(("op", t, False))
    return out


def _decl_list(raw, j):
    """an identifier followed by ',' belongs to a declaration list 'a, b : T' if a ':' follows the list before any
    other kind of token"""
    k = j + 1
    while k + 1 < len(raw) and raw[k] == "," and re.match(r"[A-Za-z]", raw[k + 1]):
        k += 2
    return k < len(raw) and raw[k] == ":" and all(re.match(r"[A-Za-z]", raw[x]) or raw[x] == "," for x in range(j, k))


def join(toks):
    """one statement per line (diagnostics keep meaningful line numbers)"""
    out, line = [], []
    for t in toks:
        line.append(t)
        if t == ";":
            out.append(" ".join(line))
            line = []
    if line:
        out.append(" ".join(line))
    return "\n".join(out) + "\n"


def mutants(text, work):
    """[dict(op, i, expect, text, ctx)] for every single-token mutant of text"""
    toks = tokenize(text)
    hs = {}
    d = mkdir(os.path.join(work, "tokmut"))
    tp = os.path.join(d, "toks-%s.ndjson" % sha(text)[:10])
    with open(tp, "w") as f:
        for k, s, u in toks:
            f.write(json.dumps({"k": k, "u": u, "h": hs.setdefault(s, len(hs) + 1)}) + "\n")
    got = []
    r = tlc.run_tlc("TokMut", None, workers=2, timeout=600, env={"TOKS": tp}, on_case=got.append,
                    cfg_text="INIT Init\nNEXT Next\nINVARIANT Emit\nINVARIANT SaneInv\n")
    if r.rc != 0 or r.errors or r.violated or not got:
        raise InfraError("TokMut failed: rc=%s %s" % (r.rc, r.tail[-10:]))
    os.unlink(tp)
    sp = [s for _, s, _ in toks]
    out = []
    for c in got:
        seq = [sp[x - 1] if x > 0 else REPL[x] for x in c["toks"]]
        i = c["i"]
        ctxs = " ".join(sp[max(0, i - 3):i + 2])
        out.append({"op": c["op"], "i": i, "expect": c["expect"], "text": join(seq), "ctx": ctxs, "tok": sp[i - 1]})
    out.sort(key=lambda m: (m["op"], m["i"]))
    return out

"""Independent ISO 10303-21 (clear text encoding) tokenizer / parser / renderer.  No stepcode code is used.

Values are tuples:
  ("null",) ("derived",) ("int", "<digits with sign>") ("real", "<text>") ("str", "<raw text between quotes>")
  ("bin", "<hex text>") ("enum", "NAME") ("ref", n) ("typed", "KEYWORD", value) ("list", [values])
Instances: dict(id=n, state=<letter or ''>, parts=[(KEYWORD, [values])...], complex=bool)
"""
import re


class P21Error(Exception):
    pass


_tok = re.compile(r"""
    (?P<ws>\s+)
  | (?P<comment>/\*.*?\*/)
  | (?P<str>'(?:[^']|'')*')
  | (?P<bin>"[0-9A-Fa-f]*")
  | (?P<real>[+-]?\d+\.\d*(?:[Ee][+-]?\d+)?)
  | (?P<int>[+-]?\d+)
  | (?P<enum>\.[A-Za-z_][A-Za-z0-9_]*\.)
  | (?P<ref>\#\d+)
  | (?P<kw>!?[A-Za-z_][A-Za-z0-9_\-]*)
  | (?P<p>[()=;,$*&])
""", re.X | re.S)


def tokenize(text):
    pos, out = 0, []
    n = len(text)
    while pos < n:
        m = _tok.match(text, pos)
        if not m:
            raise P21Error("lexical error at offset %d: %r" % (pos, text[pos:pos + 20]))
        k = m.lastgroup
        if k not in ("ws", "comment"):
            out.append((k, m.group(k)))
        pos = m.end()
    return out


class Parser:
    def __init__(self, text):
        self.t = tokenize(text)
        self.i = 0

    def peek(self):
        return self.t[self.i] if self.i < len(self.t) else ("eof", "")

    def next(self):
        tk = self.peek()
        self.i += 1
        return tk

    def expect(self, kind, val=None):
        k, v = self.next()
        if k != kind or (val is not None and v != val):
            raise P21Error("expected %s %r, got %s %r (token %d)" % (kind, val, k, v, self.i))
        return v

    def value(self):
        k, v = self.next()
        if k == "p" and v == "$":
            return ("null",)
        if k == "p" and v == "*":
            return ("derived",)
        if k == "int":
            return ("int", v)
        if k == "real":
            return ("real", v)
        if k == "str":
            return ("str", v[1:-1])
        if k == "bin":
            return ("bin", v[1:-1])
        if k == "enum":
            return ("enum", v[1:-1].upper())
        if k == "ref":
            return ("ref", int(v[1:]))
        if k == "p" and v == "(":
            items = []
            if self.peek() == ("p", ")"):
                self.next()
                return ("list", items)
            while True:
                items.append(self.value())
                k2, v2 = self.next()
                if (k2, v2) == ("p", ")"):
                    break
                if (k2, v2) != ("p", ","):
                    raise P21Error("expected , or ) in list, got %r" % v2)
            return ("list", items)
        if k == "kw":
            self.expect("p", "(")
            inner = self.value()
            self.expect("p", ")")
            return ("typed", v.upper(), inner)
        raise P21Error("unexpected token %s %r in value position" % (k, v))

    def params(self):
        self.expect("p", "(")
        ps = []
        if self.peek() == ("p", ")"):
            self.next()
            return ps
        while True:
            ps.append(self.value())
            k, v = self.next()
            if (k, v) == ("p", ")"):
                return ps
            if (k, v) != ("p", ","):
                raise P21Error("expected , or ) after parameter, got %s %r" % (k, v))

    def record(self):
        kw = self.expect("kw")
        return (kw.upper(), self.params())

    def instance(self, working):
        state = ""
        k, v = self.peek()
        if working and k == "kw" and len(v) == 1:
            # state letter directly before '#'
            state = self.next()[1].upper()
        ref = self.expect("ref")
        self.expect("p", "=")
        k, v = self.peek()
        if (k, v) == ("p", "("):
            self.next()
            parts = []
            while self.peek() != ("p", ")"):
                parts.append(self.record())
            self.next()
            cx = True
        else:
            parts = [self.record()]
            cx = False
        self.expect("p", ";")
        return dict(id=int(ref[1:]), state=state, parts=parts, complex=cx)


def parse(text):
    """Parse an exchange or working-session file.  Returns dict(kind, header=[records], data=[instances])."""
    m = re.match(r"\s*(ISO-10303-21|STEP_WORKING_SESSION)\s*;", text)
    if not m:
        raise P21Error("missing file start token")
    kind = m.group(1)
    working = kind == "STEP_WORKING_SESSION"
    endtok = "END-" + kind
    body = text[m.end():]
    e = body.rfind(endtok)
    if e < 0:
        raise P21Error("missing %s" % endtok)
    tail = body[e + len(endtok):]
    if not re.match(r"\s*;\s*$", tail):
        raise P21Error("garbage after end token")
    body = body[:e]
    p = Parser(body)
    p.expect("kw", "HEADER")
    p.expect("p", ";")
    header = []
    while p.peek() != ("kw", "ENDSEC"):
        header.append(p.record())
        p.expect("p", ";")
    p.next()
    p.expect("p", ";")
    p.expect("kw", "DATA")
    p.expect("p", ";")
    data = []
    while p.peek() != ("kw", "ENDSEC"):
        data.append(p.instance(working))
    p.next()
    p.expect("p", ";")
    if p.peek()[0] != "eof":
        raise P21Error("tokens after ENDSEC of the data section")
    return dict(kind=kind, header=header, data=data)


# ---------------------------------------------------------------- rendering

def render_value(v):
    t = v[0]
    if t == "null":
        return "$"
    if t == "derived":
        return "*"
    if t in ("int", "real"):
        return v[1]
    if t == "str":
        return "'" + v[1] + "'"
    if t == "bin":
        return '"' + v[1] + '"'
    if t == "enum":
        return "." + v[1] + "."
    if t == "ref":
        return "#%d" % v[1]
    if t == "typed":
        return "%s(%s)" % (v[1], render_value(v[2]))
    if t == "list":
        return "(" + ",".join(render_value(x) for x in v[1]) + ")"
    raise ValueError(v)


def render_instance(inst, sep=""):
    if inst.get("complex") or len(inst["parts"]) != 1:
        body = "(" + "".join("%s(%s)" % (kw, ("," + sep).join(render_value(x) for x in ps)) for kw, ps in inst["parts"]) + ")"
    else:
        kw, ps = inst["parts"][0]
        body = "%s(%s)" % (kw, ("," + sep).join(render_value(x) for x in ps))
    return "%s#%d%s=%s%s;" % (inst.get("state", ""), inst["id"], sep, sep, body)


HEADER = ("HEADER;\nFILE_DESCRIPTION(('verif'),'2;1');\n"
          "FILE_NAME('f','2020-01-01T00:00:00',('a'),('o'),'p','s','z');\nFILE_SCHEMA(('%s'));\nENDSEC;\n")


def render_file(schema, instances, working=False, sep=""):
    start = "STEP_WORKING_SESSION" if working else "ISO-10303-21"
    out = [start + ";\n", HEADER % schema.upper(), "DATA;\n"]
    for i in instances:
        out.append(render_instance(i, sep) + "\n")
    out.append("ENDSEC;\nEND-%s;\n" % start)
    return "".join(out)

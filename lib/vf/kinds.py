"""Binding of P21Read cases to the model schema schemas/kinds.exp."""
import os

from . import build, p21
from .common import VERIF

SCHEMA = os.path.join(VERIF, "schemas", "kinds.exp")
DRV = os.path.join(VERIF, "harness", "cpp", "session_drv.cc")
# a valid literal per attribute kind (instance #1 is a TGT)
VALID = {"int": "7", "real": "2.5", "num": "3.5", "str": "'ab'", "bin": '"0F"', "bool": ".T.", "log": ".U.",
         "enum": ".RED.", "ref": "#1", "sel": "LAB('q')", "li": "(1,2)", "lr": "(#1)",
         "dstr": "'ab'", "dstr2": "'ab'", "dint": "7", "dint2": "7", "dreal2": "2.5"}
HEAD = "ISO-10303-21;\n" + p21.HEADER % "KINDS" + "DATA;\n"
TAIL = "ENDSEC;\nEND-ISO-10303-21;\n"


def driver(cfg="plain"):
    s = build.schema_lib("kinds", open(SCHEMA).read(), cfg)
    return build.link_driver("session_kinds", [DRV], cfg=cfg, schema=s)


def file_of(instances):
    """instances: list of instance texts without id; numbered #1.. in order (first should be the TGT)."""
    return HEAD + "".join("#%d=%s;\n" % (i + 1, t) for i, t in enumerate(instances)) + TAIL


def missing_case(c, before="", after=""):
    """(instance text, (part index, parameter index)) for a C15 case; before / after: token separators (blanks, line
    breaks, comments) written around the unset value"""
    k, pos, form = c["kind"], c["pos"], before + c["form"] + after
    if c["ctx"] == "plain":
        vals = [VALID[k]] * 3
        vals[pos - 1] = form
        return "%s_%s(%s)" % ("O" if c["opt"] else "R", k.upper(), ",".join(vals)), (0, pos - 1)
    if c["ctx"] == "inherited":
        if k == "int":
            vals = ["7", "7", "7", "7"]
            ent = "SUB_INT"
        else:
            vals = ["7", "7", "7", ".RED."]
            ent = "SUB_ENUM"
        vals[pos - 1] = form
        return "%s(%s)" % (ent, ",".join(vals)), (0, pos - 1)
    # complex: CBASE(id) CPA(a1,a2) CPB(b1)
    v = {"id": "1", "a1": "2", "a2": ".RED.", "b1": "'x'"}
    name = ["id", "a1", "a2", "b1"][pos - 1]
    v[name] = form
    where = {"id": (0, 0), "a1": (1, 0), "a2": (1, 1), "b1": (2, 0)}[name]
    return "(CBASE(%s)CPA(%s,%s)CPB(%s))" % (v["id"], v["a1"], v["a2"], v["b1"]), where


def wclass(v):
    """class of a written value: null / zero / empty / other:<text>"""
    if v == ("null",):
        return "null"
    if v[0] in ("int", "real"):
        try:
            return "zero" if float(v[1]) == 0.0 else "other:" + v[1]
        except ValueError:
            return "other:" + v[1]
    if v[0] == "str":
        return "empty" if v[1] == "" else "other:'%s'" % v[1]
    return "other:" + p21.render_value(v)


# ------------------------------------------------------------------ C03 single-fault files
LIT = {"int": "7", "real": "2.5", "str": "'zz'", "bin": '"0F"', "enum": ".RED.", "ref": "#1", "list": "(1,2)",
       "strlist": "('a')", "intlist": "(1,2)", "typed_enum": "COLOUR(.RED.)", "typed_unknown": "NOSUCHTYPE(1)"}
BASE = {1: "TGT(1)", 2: "OTHER(2)", 3: "O_REF(#1,$,#1)", 4: "R_STR('a','b','c')", 5: "TGT(5)"}
FID = 10


def p21read_tool(cfg="plain"):
    """The repository's reference tool built against the kinds library."""
    from .common import REPO
    s = build.schema_lib("kinds", open(SCHEMA).read(), cfg)
    src = [os.path.join(REPO, "src", "test", "p21read", "p21read.cc"),
           os.path.join(REPO, "src", "test", "p21read", "sc_benchmark.cc")]
    return build.link_driver("p21read_kinds", src, cfg=cfg, schema=s,
                             extra_flags=["-I" + os.path.join(REPO, "src", "test", "p21read")])


def fault_case(c):
    """-> (file text, faulty id, ids that must stay intact)"""
    cl, k, pos, lit = c["class"], c["kind"], c["pos"], c["lit"]
    V = VALID.get(k, "")
    ent = "R_" + k.upper()
    vals = [V, V, V]
    fid, term = FID, ";"
    if cl == "few":
        txt = "%s(%s)" % (ent, ",".join(vals[:2]))
    elif cl == "many":
        txt = "%s(%s)" % (ent, ",".join(vals + [V]))
    elif cl == "wrongkind":
        vals[pos - 1] = LIT[lit]
        txt = "%s(%s)" % (ent, ",".join(vals))
    elif cl == "unknown_kw" and k == "complex":
        parts = ["CBASE(1)", "CPA(2,.RED.)", "CPB('x')"]
        parts[pos - 1] = "CPX" + parts[pos - 1][parts[pos - 1].index("("):]
        txt = "(" + "".join(parts) + ")"
    elif cl == "unknown_kw":
        txt = "NOSUCH(1)"
    elif cl == "abstract_kw":
        txt = "ABS_E(1)"
    elif cl == "value_for_derived":
        txt = "DSUB(1,5)"
    elif cl == "dup_id":
        txt, fid = "TGT(77)", 5
    elif cl == "bad_enum":
        vals[pos - 1] = {"unrelated": ".PURPLE." if k == "enum" else ".X.", "prefix": ".RE." if k == "enum" else ".TR.",
                         "extension": ".REDD." if k == "enum" else ".TRUE.", "inner": ".RAD." if k == "enum" else ".Y."}[lit or "unrelated"]
        txt = "%s(%s)" % (ent, ",".join(vals))
    elif cl == "star_not_derived":
        vals[pos - 1] = "*"
        txt = "%s(%s)" % (ent, ",".join(vals))
    elif cl == "missing_aggr":
        vals[pos - 1] = "$"
        txt = "%s(%s)" % (ent, ",".join(vals))
    elif cl in ("dangling_ref", "wrongtype_ref"):
        bad = "#99" if cl == "dangling_ref" else "#2"
        vals[pos - 1] = bad if k in ("ref", "sel") else "(#1,%s)" % bad
        txt = "%s(%s)" % (ent, ",".join(vals))
    elif cl == "select_outside":
        vals[pos - 1] = LIT[lit]
        txt = "%s(%s)" % (ent, ",".join(vals))
    elif cl == "unterminated_inst":
        txt, term = "%s(%s)" % (ent, ",".join(vals)), ""
    elif cl == "unterminated_str":
        vals = ["'ab'", "'cd'", "'ef'"]
        vals[pos - 1] = vals[pos - 1][:-1]
        txt = "R_STR(%s)" % ",".join(vals)
    else:
        raise ValueError(cl)
    order = {"first": [FID, 1, 2, 3, 4, 5], "middle": [1, 2, 3, FID, 4, 5], "last": [1, 2, 3, 4, 5, FID]}[c["place"]]
    lines = []
    for i in order:
        if i == FID:
            lines.append("#%d=%s%s\n" % (fid, txt, term))
        else:
            lines.append("#%d=%s;\n" % (i, BASE[i]))
    at = order.index(FID)
    after = order[at + 1:]
    intact = [i for i in order if i != FID]
    if c["region"] == "next" and after:
        intact.remove(after[0])
    elif c["region"] == "eof":
        intact = [i for i in intact if i not in after]
    if cl == "dup_id":
        intact = [i for i in intact if i != 5]
    if 1 not in intact and 3 in intact:
        intact.remove(3)          # #3 refers to #1: its references cannot survive the loss of #1
    return HEAD + "".join(lines) + TAIL, fid, intact, txt


def intact_ok(out_path, ids):
    """every instance in ids is present in the written file with the values of BASE"""
    got = {}
    try:
        text = open(out_path, errors="replace").read()
    except OSError as ex:
        return False, "no output: %s" % ex
    try:
        data = p21.parse(text)["data"]
    except p21.P21Error:
        # the damaged instance may have been written back in a form that is not valid Part 21 (that is another
        # property's business): judge the other instances statement by statement
        import re
        data = []
        for m in re.finditer(r"(?m)^#(\d+)=(.*?);$", text):
            try:
                data.append(p21.Parser("#%s=%s;" % (m.group(1), m.group(2))).instance(False))
            except p21.P21Error:
                pass
    for x in data:
        got.setdefault(x["id"], []).append(p21.render_instance(x).split("=", 1)[1].rstrip(";"))
    for i in ids:
        if got.get(i) != [BASE[i]]:
            return False, "#%d is %s, file has %s" % (i, got.get(i), BASE[i])
    return True, ""

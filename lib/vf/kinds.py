"""Binding of P21Read cases to the model schema schemas/kinds.exp."""
import os

from . import build, p21
from .common import VERIF

SCHEMA = os.path.join(VERIF, "schemas", "kinds.exp")
DRV = os.path.join(VERIF, "harness", "cpp", "session_drv.cc")
# a valid literal per attribute kind (instance #1 is a TGT)
VALID = {"int": "7", "real": "2.5", "num": "3.5", "str": "'ab'", "bin": '"0F"', "bool": ".T.", "log": ".U.",
         "enum": ".RED.", "ref": "#1", "sel": "LAB('q')", "li": "(1,2)", "lr": "(#1)"}
HEAD = "ISO-10303-21;\n" + p21.HEADER % "KINDS" + "DATA;\n"
TAIL = "ENDSEC;\nEND-ISO-10303-21;\n"


def driver(cfg="plain"):
    s = build.schema_lib("kinds", open(SCHEMA).read(), cfg)
    return build.link_driver("session_kinds", [DRV], cfg=cfg, schema=s)


def file_of(instances):
    """instances: list of instance texts without id; numbered #1.. in order (first should be the TGT)."""
    return HEAD + "".join("#%d=%s;\n" % (i + 1, t) for i, t in enumerate(instances)) + TAIL


def missing_case(c):
    """(instance text, (part index, parameter index)) for a C15 case."""
    k, pos, form = c["kind"], c["pos"], c["form"]
    if c["ctx"] == "plain":
        vals = [VALID[k]] * 3
        vals[pos - 1] = form
        return "%s_%s(%s)" % ("O" if c["opt"] else "R", k.upper(), ",".join(vals)), (0, pos - 1)
    if c["ctx"] == "inherited":
        if k == "int":
            vals = ["7", "7", "7", "7"]
            ent = "SUB_INT"
        else:
            vals = ["7", "7", "7", ".RED."]
            ent = "SUB_ENUM"
        vals[pos - 1] = form
        return "%s(%s)" % (ent, ",".join(vals)), (0, pos - 1)
    # complex: CBASE(id) CPA(a1,a2) CPB(b1)
    v = {"id": "1", "a1": "2", "a2": ".RED.", "b1": "'x'"}
    name = ["id", "a1", "a2", "b1"][pos - 1]
    v[name] = form
    where = {"id": (0, 0), "a1": (1, 0), "a2": (1, 1), "b1": (2, 0)}[name]
    return "(CBASE(%s)CPA(%s,%s)CPB(%s))" % (v["id"], v["a1"], v["a2"], v["b1"]), where


def wclass(v):
    """class of a written value: null / zero / empty / other:<text>"""
    if v == ("null",):
        return "null"
    if v[0] in ("int", "real"):
        try:
            return "zero" if float(v[1]) == 0.0 else "other:" + v[1]
        except ValueError:
            return "other:" + v[1]
    if v[0] == "str":
        return "empty" if v[1] == "" else "other:'%s'" % v[1]
    return "other:" + p21.render_value(v)

"""Line-protocol replay: one input line per case in, one output line per case out, with crash recovery."""
import concurrent.futures as cf
import subprocess
import threading

from .common import InfraError


def run_batch(cmd, lines, timeout=600, env=None):
    """Feed `lines` to `cmd`; returns list of outputs (same length).  If the driver dies at case k, the
    output for k is {'crash': rc, 'stderr': tail} (as a marker tuple) and the rest is re-run in a new process."""
    outs = []
    start = 0
    while start < len(lines):
        chunk = lines[start:]
        try:
            p = subprocess.run(cmd, input="\n".join(chunk) + "\n", stdout=subprocess.PIPE, stderr=subprocess.PIPE,
                               text=True, timeout=timeout, env=env, errors="replace")
            got = p.stdout.split("\n")
            if got and got[-1] == "":
                got.pop()
            rc, err = p.returncode, p.stderr[-1500:]
        except subprocess.TimeoutExpired as ex:
            so = ex.stdout or b""
            if isinstance(so, bytes):
                so = so.decode(errors="replace")
            got = so.split("\n")
            if got and got[-1] == "":
                got.pop()
            # the last line may be partial
            rc, err = 124, "timeout"
        if len(got) >= len(chunk):
            outs.extend(got[:len(chunk)])
            break
        outs.extend(got)
        outs.append(("crash", rc, err))
        start += len(got) + 1
    return outs


class BatchReplayer:
    """Collect (line, expectation) pairs, replay them in parallel batches, call judge(line, exp, out) per case."""

    def __init__(self, cmd, judge, batch=20000, workers=6, env=None, timeout=900):
        self.cmd, self.judge, self.batch, self.env, self.timeout = cmd, judge, batch, env, timeout
        self.pool = cf.ThreadPoolExecutor(max_workers=workers)
        self.cur = []
        self.futs = []
        self.lock = threading.Lock()
        self.n = 0
        self.sem = threading.Semaphore(workers * 2)

    def add(self, line, exp):
        self.cur.append((line, exp))
        if len(self.cur) >= self.batch:
            self._flush()

    def _flush(self):
        if not self.cur:
            return
        b, self.cur = self.cur, []
        self.sem.acquire()
        self.futs.append(self.pool.submit(self._do, b))

    def _do(self, b):
        try:
            outs = run_batch(self.cmd, [x[0] for x in b], timeout=self.timeout, env=self.env)
            with self.lock:
                for (line, exp), out in zip(b, outs):
                    self.n += 1
                    self.judge(line, exp, out)
        finally:
            self.sem.release()

    def finish(self):
        self._flush()
        for f in self.futs:
            f.result()
        self.pool.shutdown()
        return self.n

"""C02, last clause: every generated accessor reads back what its mutator stored.
From an abstract schema (spec/Schema.tla) and its Part 21 attribute order, writes a C++ program that, for every
instantiable entity and every explicit attribute it has (own or inherited), stores a first and then a second value
through the typed mutator, reads each back through the typed accessor and through the generic attribute list, and
prints one JSON line per attribute.  Nothing is judged in the generated program."""
import json

# kind -> (first value, second value as C++ expressions, their renderings in the generic attribute view (asStr))
SIMPLE = {"INTEGER": ("7", "-12", "7", "-12"), "REAL": ("2.5", "-0.125", "2.5", "-0.125"), "NUMBER": ("3.5", "10.0", "3.5", "10"),
          "STRING": ('"txt"', '"it\'s"', "txt", "it's"),
          "BINARY": ('SDAI_Binary( std::string( "0F" ) )', 'SDAI_Binary( std::string( "1ABC" ) )', '"0F"', '"1ABC"'),
          "BOOLEAN": ("BTrue", "BFalse", "T", "F"), "LOGICAL": ("LUnknown", "LTrue", "U", "T")}
CMPVAL = {"BINARY": ('"0F"', '"1ABC"')}


def cap(n):
    return n[:1].upper() + n[1:].lower()


def resolve(s, base):
    """-> (kind, info): kind in simple:<T> | enum | entity | select | aggr | other"""
    types = {t["name"]: t for t in s["types"]}
    ents = {e["name"] for e in s["ents"]}
    seen = 0
    while base in types and seen < 10:
        t = types[base]
        if t["k"] in ("simple", "rename"):
            base = t["base"]["base"]
            seen += 1
            continue
        if t["k"] == "enum":
            return "enum", t
        if t["k"] == "select":
            return "select", t
        return "aggr", t
    if base in SIMPLE:
        return "simple:" + base, None
    if base in ents:
        return "entity", base
    return "other", None


def program(s, order):
    E = {e["name"]: e for e in s["ents"]}
    out = ['#include "schema.h"', '#include "clstepcore/Registry.h"', '#include "clstepcore/STEPattribute.h"', "#include <cstdio>", "#include <cstring>", "#include <string>",
           "extern void SchemaInit( class Registry & );",
           "static int findAttr( SDAI_Application_instance * x, const char * owner, const char * name ) {",
           "    for( int k = 0; k < x->attributes.list_length(); k++ ) {",
           "        const AttrDescriptor * ad = x->attributes[k].getADesc();",
           "        if( ad && !strcasecmp( x->attributes[k].Name(), name ) && !strcasecmp( ad->Owner().Name(), owner ) ) return k;",
           "    }", "    return -1;", "}",
           "static std::string gen( SDAI_Application_instance * x, int k ) { std::string s; if( k < 0 ) return \"?\"; x->attributes[k].asStr( s ); return s; }",
           "static std::string esc( const std::string & s ) { std::string o; for( size_t i = 0; i < s.size(); i++ ) { if( s[i] == '\"' || s[i] == '\\\\' ) o += '\\\\'; o += s[i]; } return o; }",
           "int main() {", "    Registry * reg = new Registry( SchemaInit );", "    (void) reg;"]
    # the value classes the mutators take are constructible from literals: a value built that way holds the literal
    out.append('    { SDAI_Binary b( "0F" ); SDAI_String t( "txt" ); printf( "{\\"ent\\":\\"-\\",\\"attr\\":\\"-\\",\\"owner\\":\\"-\\",\\"kind\\":\\"value-ctor\\",\\"r1\\":%s,\\"r2\\":%s,\\"g1\\":true,\\"g2\\":true,\\"k\\":0,\\"s1\\":\\"%s\\",\\"s2\\":\\"%s\\"}\\n",'
               ' !strcmp( b.c_str(), "0F" ) ? "true" : "false", !strcmp( t.c_str(), "txt" ) ? "true" : "false", b.c_str(), t.c_str() ); }')
    n = 0
    for i, e in enumerate(s["ents"]):
        if e["abstract"]:
            continue
        cls = "Sdai" + cap(e["name"])
        out.append("    {")
        out.append("        %s * x = new %s;" % (cls, cls))
        for o in order[i]:
            owner = E[o["owner"]]
            a = [y for y in owner["attrs"] if y["name"] == o["name"]][0]
            if a["ty"]["agg"] != "none":
                continue            # aggregates are exercised through the dictionary and the round trip (C01)
            kind, info = resolve(s, a["ty"]["base"])
            acc = a["name"].lower() + "_"
            tag = '"ent":"%s","attr":"%s","owner":"%s"' % (e["name"], a["name"], o["owner"])
            if kind.startswith("simple:"):
                v1, v2, g1, g2 = SIMPLE[kind[7:]]
                cmp_ = {"STRING": "!strcmp( x->%s().c_str(), %s )", "BINARY": "!strcmp( x->%s().c_str(), %s )"}.get(kind[7:], "( x->%s() == %s )")
                c1, c2 = CMPVAL.get(kind[7:], (v1, v2))
            elif kind == "enum":
                pre = cap(info["name"])
                v1, v2 = "%s__%s" % (pre, info["items"][-1].lower()), "%s__%s" % (pre, info["items"][0].lower())
                g1, g2 = info["items"][-1].upper(), info["items"][0].upper()
                cmp_ = "( (%s) x->%%s() == %%s )" % pre
                c1, c2 = v1, v2
            elif kind == "entity":
                tcls = "Sdai" + cap(info)
                out.append("        { %s * t1 = new %s; %s * t2 = new %s;" % (tcls, tcls, tcls, tcls))
                out.append("          x->%s( t1 ); bool r1 = ( x->%s() == t1 ); x->%s( t2 ); bool r2 = ( x->%s() == t2 );" % (acc, acc, acc, acc))
                out.append('          printf( "{%s,\\"kind\\":\\"entity\\",\\"r1\\":%%s,\\"r2\\":%%s,\\"g1\\":true,\\"g2\\":true}\\n", r1 ? "true" : "false", r2 ? "true" : "false" ); }' % tag.replace('"', '\\"'))
                n += 1
                continue
            else:
                continue            # selects: covered by the dictionary comparison and the round trip
            out.append("        { int k = findAttr( x, \"%s\", \"%s\" );" % (o["owner"], a["name"]))
            out.append("          x->%s( %s ); bool r1 = %s; std::string s1 = gen( x, k );" % (acc, v1, cmp_ % (acc, c1)))
            out.append("          x->%s( %s ); bool r2 = %s; std::string s2 = gen( x, k );" % (acc, v2, cmp_ % (acc, c2)))
            out.append('          printf( "{%s,\\"kind\\":\\"%s\\",\\"r1\\":%%s,\\"r2\\":%%s,\\"g1\\":%%s,\\"g2\\":%%s,\\"k\\":%%d,\\"s1\\":\\"%%s\\",\\"s2\\":\\"%%s\\"}\\n", r1 ? "true" : "false", r2 ? "true" : "false",'
                       % (tag.replace('"', '\\"'), kind))
            out.append('                  s1 == %s ? "true" : "false", s2 == %s ? "true" : "false", k, esc( s1 ).c_str(), esc( s2 ).c_str() ); }' % (json.dumps(g1), json.dumps(g2)))
            n += 1
        out.append("        delete x;")
        out.append("    }")
    out += ["    return 0;", "}"]
    return "\n".join(out) + "\n", n

"""Binding of Complex!Legal to the real reader: shapes -> one batched EXPRESS schema -> exchange files."""
import os

from . import build, p21
from .common import VERIF, sha

DRV = os.path.join(VERIF, "harness", "cpp", "session_drv.cc")


def expr_text(t, pfx):
    if t["k"] == "leaf":
        return pfx + t["e"]
    kids = [expr_text(k, pfx) for k in t["kids"]]
    if t["k"] == "oneof":
        return "ONEOF(" + ", ".join(kids) + ")"
    return "(" + (" AND " if t["k"] == "and" else " ANDOR ").join(kids) + ")"


def schema_text(shapes):
    out = ["SCHEMA cxb;"]
    for i, sh in enumerate(shapes):
        pfx = "s%d_" % i
        for e in sh["ents"]:
            head = "ENTITY " + pfx + e
            x = sh["expr"][e]
            if e in sh["abstract"] or x["k"] != "none":
                head += (" ABSTRACT" if e in sh["abstract"] else "") + " SUPERTYPE"
                if x["k"] != "none":
                    head += " OF (" + expr_text(x, pfx) + ")"
            sup = sorted(sh["supers"][e])
            if sup:
                head += " SUBTYPE OF (" + ", ".join(pfx + s for s in sup) + ")"
            out.append("%s; %s%s_v : OPTIONAL INTEGER; END_ENTITY;" % (head, pfx, e))
    out.append("END_SCHEMA;")
    return "\n".join(out) + "\n"


def driver(shapes, cfg="plain"):
    txt = schema_text(shapes)
    tag = "cxb" + sha(txt)[:8]
    s = build.schema_lib(tag, txt, cfg)
    return build.link_driver("session_" + tag, [DRV], cfg=cfg, schema=s), txt


def instance_text(i, S, order, k):
    parts = sorted("S%d_%s" % (i, e.upper()) for e in S)
    if order == "rev":
        parts = parts[::-1]
    return "(" + "".join("%s(%s)" % (p, "$" if (k + j) % 2 else str(j + 1)) for j, p in enumerate(parts)) + ")"


def file_text(insts):
    """insts: list of (id, text)"""
    head = "ISO-10303-21;\n" + p21.HEADER % "CXB" + "DATA;\n"
    return head + "".join("#%d=%s;\n" % (n, t) for n, t in insts) + "ENDSEC;\nEND-ISO-10303-21;\n"

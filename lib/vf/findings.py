"""Known findings: read-only at run time.  A violation is suppressed only when its key is listed."""
import json
import os
import re

from .common import VERIF

PATH = os.path.join(VERIF, "known_findings.json")


def load():
    if not os.path.exists(PATH):
        return []
    with open(PATH) as f:
        d = json.load(f)
    return [x for x in d.get("findings", []) if x.get("status", "finding") == "finding"]


def match(prop, key, listed=None):
    """Return the finding entry that lists this violation key, else None.
    An entry matches by exact 'key', or by 'key_regex' (full match) for structural findings whose
    signature is a named deviation of the specification."""
    listed = load() if listed is None else listed
    for f in listed:
        if f.get("property") != prop and prop not in f.get("properties", []):
            continue
        if "key" in f and f["key"] == key:
            return f
        if "key_regex" in f and re.fullmatch(f["key_regex"], key):
            return f
    return None

"""Build /repo's working tree (core, hooks on) and generated schema libraries, all under WORK."""
import concurrent.futures as cf
import fcntl
import glob
import os
import shutil

from .common import REPO, WORK, NCPU, InfraError, log, mkdir, run, sha, file_sha

GUARD = "SC_VERIF_HOOKS"

CFGS = {
    "plain": dict(cc="gcc", cxx="g++", flags="-D%s" % GUARD, btype="RelWithDebInfo", ldflags=""),
    "asan": dict(cc="clang", cxx="clang++",
                 flags="-D%s -fsanitize=address,undefined -fno-sanitize=function,vptr -fno-omit-frame-pointer -fno-sanitize-recover=undefined -O1 -g" % GUARD,
                 btype="None", ldflags="-fsanitize=address,undefined"),
}


class BuildFailure(Exception):
    """The repository's own code (or generated code) does not build."""


def _lock(name):
    mkdir(WORK)
    f = open(os.path.join(WORK, name + ".lock"), "w")
    fcntl.flock(f, fcntl.LOCK_EX)
    return f


def core(cfg="plain"):
    """Configure (once) and incrementally build the core libraries and tools.  Returns the build dir."""
    c = CFGS[cfg]
    bdir = os.path.join(WORK, "build-" + cfg)
    lk = _lock("build-" + cfg)
    try:
        if not os.path.exists(os.path.join(bdir, "build.ninja")):
            mkdir(bdir)
            cmd = ["cmake", "-G", "Ninja", "-S", REPO, "-B", bdir, "-DSC_BUILD_SCHEMAS=", "-DSC_ENABLE_TESTING=OFF",
                   "-DCMAKE_BUILD_TYPE=" + c["btype"], "-DCMAKE_C_COMPILER=" + c["cc"],
                   "-DCMAKE_CXX_COMPILER=" + c["cxx"], "-DCMAKE_C_FLAGS=" + c["flags"],
                   "-DCMAKE_CXX_FLAGS=" + c["flags"]]
            if c["ldflags"]:
                cmd += ["-DCMAKE_EXE_LINKER_FLAGS=" + c["ldflags"], "-DCMAKE_SHARED_LINKER_FLAGS=" + c["ldflags"]]
            p = run(cmd, timeout=600)
            if p.returncode != 0:
                shutil.rmtree(bdir, ignore_errors=True)
                raise BuildFailure("cmake configure failed:\n" + p.stdout[-3000:] + p.stderr[-3000:])
        p = run(["ninja", "-C", bdir], timeout=1800)
        if p.returncode != 0:
            raise BuildFailure("core build failed (%s):\n%s" % (cfg, (p.stdout + p.stderr)[-6000:]))
    finally:
        lk.close()
    return bdir


def incdirs(bdir):
    return [os.path.join(REPO, "src", d) for d in ("cldai", "cleditor", "clutils", "clstepcore", "cllazyfile",
                                                  "cllazyfile/judy/src")] + \
           [os.path.join(REPO, "include"), os.path.join(bdir, "include"), os.path.join(REPO, "src")]


def _hdr_digest():
    hs = []
    for d in ("src/cldai", "src/cleditor", "src/clutils", "src/clstepcore", "src/cllazyfile", "include"):
        for root, _, files in os.walk(os.path.join(REPO, d)):
            for f in sorted(files):
                if f.endswith(".h"):
                    hs.append(file_sha(os.path.join(root, f)))
    return sha(*hs)


CORE_LIBS = ["steplazyfile", "stepeditor", "stepdai", "stepcore", "steputils"]


def cxx_cmd(cfg, bdir, extra_inc=()):
    c = CFGS[cfg]
    opt = ["-O0", "-g0"] if cfg == "plain" else []
    cmd = [c["cxx"], "-std=c++11", "-w", "-DSC_SDAI_UNITY_BUILD"] + c["flags"].split() + opt
    for i in list(extra_inc) + incdirs(bdir):
        cmd.append("-I" + i)
    return cmd


def link_cmd(cfg, bdir):
    c = CFGS[cfg]
    lib = os.path.join(bdir, "lib")
    cmd = ["-L" + lib, "-Wl,-rpath," + lib] + ["-l" + l for l in CORE_LIBS] + ["-lpthread"]
    if c["ldflags"]:
        cmd += c["ldflags"].split()
    return cmd


def compile_many(cfg, bdir, sources, objdir, extra_inc=(), jobs=NCPU, generated=True):
    """Compile sources -> objects in parallel.  Raises BuildFailure (generated code) or InfraError (harness code)."""
    mkdir(objdir)
    base = cxx_cmd(cfg, bdir, extra_inc)

    def one(src):
        obj = os.path.join(objdir, os.path.basename(src) + ".o")
        p = run(base + ["-c", src, "-o", obj], timeout=900)
        return src, obj, p

    objs = []
    with cf.ThreadPoolExecutor(max_workers=jobs) as ex:
        for src, obj, p in ex.map(one, sources):
            if p.returncode != 0:
                exc = BuildFailure if generated else InfraError
                raise exc("compile failed: %s\n%s" % (src, p.stderr[-4000:]))
            objs.append(obj)
    return objs


def gen_schema(exp_path, outdir, bdir, timeout=120):
    """Run the freshly built exp2cxx on exp_path in outdir.  Returns CompletedProcess."""
    mkdir(outdir)
    return run([os.path.join(bdir, "bin", "exp2cxx"), exp_path], cwd=outdir, timeout=timeout)


def schema_sources(gendir):
    """The translation units of a generated schema under -DSC_SDAI_UNITY_BUILD."""
    srcs = sorted(glob.glob(os.path.join(gendir, "*_unity_*.cc")))
    for f in sorted(glob.glob(os.path.join(gendir, "*.cc"))):
        b = os.path.basename(f)
        if "_unity_" in b:
            continue
        srcs.append(f)
    return srcs


def schema_lib(tag, exp_text, cfg="plain", bdir=None):
    """exp2cxx + compile of a model schema, cached by (schema text, exp2cxx binary, core headers, cfg).
    Returns dict(dir, objs, gen_rc, gen_err).  Raises BuildFailure if generated code does not compile."""
    bdir = bdir or core(cfg)
    # exp2cxx is linked dynamically against libexpress: both decide what is generated
    gen_id = sha(file_sha(os.path.join(bdir, "bin", "exp2cxx")), file_sha(os.path.realpath(os.path.join(bdir, "lib", "libexpress.so"))))
    key = sha(exp_text, gen_id, _hdr_digest(), cfg)[:20]
    d = os.path.join(WORK, "schemas", "%s-%s-%s" % (tag, cfg, key))
    ok = os.path.join(d, "OK")
    lk = _lock("schema-" + tag + "-" + cfg)
    try:
        if not os.path.exists(ok):
            # drop stale variants of this tag/cfg
            for old in glob.glob(os.path.join(WORK, "schemas", "%s-%s-*" % (tag, cfg))):
                shutil.rmtree(old, ignore_errors=True)
            mkdir(d)
            exp = os.path.join(d, tag + ".exp")
            with open(exp, "w") as f:
                f.write(exp_text)
            gen = os.path.join(d, "gen")
            p = gen_schema(exp, gen, bdir)
            if p.returncode != 0:
                raise BuildFailure("exp2cxx failed (%d) on model schema %s:\n%s" % (p.returncode, tag, p.stderr[-3000:]))
            srcs = schema_sources(gen)
            compile_many(cfg, bdir, srcs, os.path.join(d, "obj"), extra_inc=[gen])
            open(ok, "w").write("ok\n")
    finally:
        lk.close()
    return dict(dir=d, gen=os.path.join(d, "gen"), objs=sorted(glob.glob(os.path.join(d, "obj", "*.o"))))


def link_driver(name, driver_srcs, cfg="plain", schema=None, bdir=None, extra_flags=(), libs=()):
    """Compile harness driver sources (+ optional generated schema objects) into WORK/bin/<name>.
    Rebuilt when any input changed (driver text, core headers, schema)."""
    bdir = bdir or core(cfg)
    out = os.path.join(mkdir(os.path.join(WORK, "bin")), name + "-" + cfg)
    key = sha(*( [open(s).read() for s in driver_srcs] + [_hdr_digest(), cfg, schema["dir"] if schema else "-"]
                + list(extra_flags) + list(libs)))
    stamp = out + ".key"
    lk = _lock("drv-" + name + "-" + cfg)
    try:
        if os.path.exists(out) and os.path.exists(stamp) and open(stamp).read() == key:
            return out
        inc = [schema["gen"]] if schema else []
        cmd = cxx_cmd(cfg, bdir, inc) + list(extra_flags) + list(driver_srcs)
        if schema:
            cmd += schema["objs"]
        cmd += ["-o", out] + link_cmd(cfg, bdir) + list(libs)
        p = run(cmd, timeout=900)
        if p.returncode != 0:
            raise InfraError("driver %s failed to build:\n%s" % (name, p.stderr[-6000:]))
        open(stamp, "w").write(key)
    finally:
        lk.close()
    return out


def scanner(cfg="plain"):
    """The configure-time schema scanner, built the way cmake/schema_scanner/schemaScanner.cmake does (sub-project
    configured with an initial cache naming the source tree and the core build directory)."""
    bdir = core(cfg)
    sdir = os.path.join(WORK, "scanner-" + cfg)
    lk = _lock("scanner-" + cfg)
    try:
        if not os.path.exists(os.path.join(sdir, "build.ninja")):
            mkdir(sdir)
            cache = os.path.join(sdir, "initial_scanner_cache.cmake")
            c = CFGS[cfg]
            with open(cache, "w") as f:
                f.write('set(SC_ROOT "%s" CACHE STRING "root dir")\nset(SC_BUILDDIR "%s" CACHE PATH "build dir")\n'
                        'set(CALLED_FROM "STEPCODE_CMAKELISTS" CACHE STRING "verification")\n'
                        'set(CMAKE_BUILD_TYPE "Debug" CACHE STRING "build type")\n'
                        'set(CMAKE_C_COMPILER "%s" CACHE STRING "compiler")\nset(CMAKE_CXX_COMPILER "%s" CACHE STRING "compiler")\n'
                        % (REPO, sdir, c["cc"], c["cxx"]))
            mkdir(os.path.join(sdir, "include"))
            for h in os.listdir(os.path.join(bdir, "include")):
                src = os.path.join(bdir, "include", h)
                if os.path.isfile(src):
                    shutil.copy(src, os.path.join(sdir, "include", h))
            p = run(["cmake", "-C", cache, os.path.join(REPO, "cmake", "schema_scanner"), "-G", "Ninja"], cwd=sdir, timeout=300)
            if p.returncode != 0:
                shutil.rmtree(sdir, ignore_errors=True)
                raise BuildFailure("schema scanner configure failed:\n" + (p.stdout + p.stderr)[-3000:])
        p = run(["ninja", "-C", sdir], timeout=900)
        if p.returncode != 0:
            raise BuildFailure("schema scanner build failed:\n" + (p.stdout + p.stderr)[-4000:])
    finally:
        lk.close()
    for cand in (os.path.join(sdir, "bin", "schema_scanner"), os.path.join(sdir, "schema_scanner")):
        if os.path.exists(cand):
            return cand
    raise BuildFailure("schema_scanner binary not found under " + sdir)


def tool(bdir, name):
    return os.path.join(bdir, "bin", name)


ASAN_ENV = {"ASAN_OPTIONS": "detect_leaks=0:abort_on_error=0:exitcode=99:allocator_may_return_null=1",
            "UBSAN_OPTIONS": "print_stacktrace=1:halt_on_error=1:exitcode=98"}

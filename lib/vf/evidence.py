"""Evidence files (schema: /root/.vp/EVIDENCE.schema.json)."""
import os

from .common import EVID, write_json


def write(prop, tier, seed, level, coverage, wall_s, violations=0, assumptions=(), extra=None):
    ev = {
        "property_id": prop,
        "tier": tier,
        "seed": int(seed),
        "level": level,
        "coverage": coverage,
        "assumptions": list(assumptions),
        "wall_s": float(wall_s),
        "violations": int(violations),
    }
    if extra:
        ev.update(extra)
    write_json(os.path.join(EVID, prop + ".json"), ev)
    return ev

"""Binding of the Lazy module to the real lazy loader through schemas/lazy.exp and harness/cpp/lazy_drv.cc."""
import json
import os

from . import build, p21, seps, sess
from .common import VERIF

SCHEMA = os.path.join(VERIF, "schemas", "lazy.exp")
DRV = os.path.join(VERIF, "harness", "cpp", "lazy_drv.cc")


def driver(cfg="plain"):
    s = build.schema_lib("lazy", open(SCHEMA).read(), cfg)
    return build.link_driver("lazy_drv", [DRV], cfg=cfg, schema=s)


STR = {"plain": "'x'", "hashparen": "'a#9(;'", "quotes": "'it''s #1'", "unset": "$",
       # the control directive \\S\\' is a single character: its apostrophe does not end the string
       "directive2": "'p\\S\\'#%d q\\S\\'r'", "directive1": "'sect \\S\\' #%d;'"}


def tokens(x, strform="plain"):
    """the token sequence of one instance (Part 21 tokens; the layout decides what stands between them)"""
    t, i, a, b = x["ty"], x["id"], x["a"], x["b"]
    ref = lambda seq: ["#%d" % seq[0]] if seq else ["$"]

    def lst(seq):
        out = ["("]
        for k, v in enumerate(seq):
            out += ([","] if k else []) + ["#%d" % v]
        return out + [")"]
    if t in ("pnode", "psub"):
        body = [t.upper(), "(", str(i), ","] + ref(a) + [","] + ref(b) + [")"]
    elif t in ("pholder", "pspecial"):
        sv = STR[strform]
        if "%d" in sv:
            sv = sv % (a[0] if a else 1)
        body = [t.upper(), "("] + lst(a) + [","] + ref(b) + [",", sv] + ([",", "'extra of %d'" % i] if t == "pspecial" else []) + [")"]
    elif t == "cx":
        body = ["(", "PBASE", "(", str(i), ")", "PPA", "("] + ref(a) + [")", "PPB", "("] + ref(b) + [")", ")"]
    elif t in ("inode", "isubnode", "isubsub", "idl", "idr", "idia", "ione", "itwo"):
        body = [t.upper(), "(", str(i), ")"]
    elif t == "imulti":      # attributes of iann first (note, extra), then those of iholder (items, other)
        body = ["IMULTI", "(", "$", ","] + ref(b) + [","] + lst(a) + [","] + ref(b) + [")"]
    elif t == "irec":
        body = ["IREC", "(", str(i), ","] + ref(a) + [")"]
    elif t in ("iholder", "isub"):
        body = [t.upper(), "("] + lst(a) + [","] + ref(b) + [")"]
    elif t in ("ilink", "ipair"):
        body = [t.upper(), "("] + ref(a) + [","] + ref(b) + [")"]
    else:
        raise ValueError(t)
    return ["#%d" % x["id"], "="] + body + [";"]


def join(toks, lay, sp=None):
    """one instance in layout lay (a member of Lazy!Layouts); sp hands out comment separators (P21Sep)"""
    out = []
    sp = sp or (lambda: "/* c */")
    for k, t in enumerate(toks):
        out.append(t)
        nxt = toks[k + 1] if k + 1 < len(toks) else None
        if nxt is None:
            break
        kw = t[0].isalpha()
        if lay == "spaced":
            out.append(" ")
        elif lay == "commentAfterEq" and t == "=":
            out.append(sp())
        elif lay == "inlineComment" and t in (",", "("):
            out.append(sp())
        elif lay in ("kwNl", "kwTab", "kwSp") and (t == "=" or kw):
            out.append({"kwNl": "\n", "kwTab": "\t", "kwSp": " "}[lay])
        elif lay == "multiline" and t == ",":
            out.append("\n  ")
        elif lay == "refSpace" and (t in ("(", ",") or nxt in (")", ",")):
            out.append(" ")
    return "".join(out)


def file_text(P, lay="compact", strform="plain"):
    head = "ISO-10303-21;\n" + p21.HEADER % "LAZY" + "DATA;\n"
    body = []
    sp = seps.Spacer("comments", sum(x["id"] * (k + 1) + 3 * len(x["a"]) + 5 * len(x["b"]) for k, x in enumerate(P)))
    if lay == "commentFirst":
        body.append(sp() + "\n")
    for k, x in enumerate(P):
        if k == 1 and lay in ("comment1", "comment2"):
            body.append("/* #%d=PNODE(9,#%d); ( ' */" % (P[0]["id"], P[0]["id"]) + (sp() + sp() + "\n" if lay == "comment2" else "\n"))
        body.append(join(tokens(x, strform), lay, sp) + {"oneLine": "", "blank": "\n\n\n"}.get(lay, "\n"))
    if lay == "commentEnd":
        body.append(sp() + "\n")
    txt = head + "".join(body) + "ENDSEC;\nEND-ISO-10303-21;\n"
    return txt.replace("\n", "\r\n") if lay == "crlf" else txt


def script(path, P, order):
    maxid = max(x["id"] for x in P) + 2
    L = ["eager " + path, "open %s %d" % (path, maxid)]
    L += ["deps %d" % x["id"] for x in P]
    ids = [x["id"] for x in P]
    if order.startswith("each:"):       # a fresh session that loads one instance only (twice)
        ids = [int(order[5:])]
    if order == "desc":
        ids = ids[::-1]
    if order.startswith("rot:"):
        k = int(order[4:]) % len(ids)
        ids = ids[k:] + ids[:k]
    L += ["load %d" % i for i in ids] + ["load %d" % i for i in ids]
    return L


def events(P, lines, res):
    """driver results -> trace events (Given, Open, Deps, Load | Crash)"""
    ev = [{"e": "Given", "pop": P}]
    eager = {}
    for cmdline, rr in zip(lines, res + [None] * (len(lines) - len(res))):
        cmd = cmdline.split()[0]
        if rr is None or rr.get("cmd") == "crash":
            arg = cmdline.split()[1]
            ev.append({"e": "Crash", "during": cmd, "id": int(arg) if arg.isdigit() else 0,
                       "rc": (rr or {}).get("rc", -1)})
            break
        if cmd == "eager":
            eager = {i[0]: i[2] for i in rr["insts"]}
        elif cmd == "open":
            ev.append({"e": "Open", "index": [[i, t.lower()] for i, t in rr["index"]], "fwd": rr["fwd"], "rev": rr["rev"],
                       "total": rr["total"]})
        elif cmd == "deps":
            ev.append({"e": "Deps", "id": rr["id"], "set": rr["set"]})
        elif cmd == "load":
            same = bool(rr.get("ok")) and rr.get("ser") == eager.get(rr["id"]) and rr.get("fid") == rr["id"]
            ev.append({"e": "Load", "id": rr["id"], "ok": bool(rr.get("ok")), "same": same,
                       "ser": rr.get("ser", ""), "eager": eager.get(rr["id"], ""), "loaded": rr.get("loaded", -1),
                       "inv": rr.get("inv", [])})
    return [json.dumps(e) for e in ev]

"""Binding of the Lazy module to the real lazy loader through schemas/lazy.exp and harness/cpp/lazy_drv.cc."""
import json
import os

from . import build, p21, sess
from .common import VERIF

SCHEMA = os.path.join(VERIF, "schemas", "lazy.exp")
DRV = os.path.join(VERIF, "harness", "cpp", "lazy_drv.cc")


def driver(cfg="plain"):
    s = build.schema_lib("lazy", open(SCHEMA).read(), cfg)
    return build.link_driver("lazy_drv", [DRV], cfg=cfg, schema=s)


def r(seq, k=0):
    return "#%d" % seq[k] if len(seq) > k else "$"


def inst_text(x, variant=0):
    t, i, a, b = x["ty"], x["id"], x["a"], x["b"]
    if t == "pnode":
        return "PNODE(%d,%s)" % (i, r(a))
    if t == "pholder":
        # strings that look like data to a careless scanner: '#', '(' ';', doubled quotes, and the control directive
        # \S\' (a single character - the apostrophe does not end the string), once and twice
        s = ["'x'", "'a#9(;'", "'it''s #1'", "$", "'p\\S\\'#%d q\\S\\'r'" % (a[0] if a else 1), "'sect \\S\\' #%d;'" % (a[0] if a else 1)][variant % 6]
        return "PHOLDER((%s),%s,%s)" % (",".join("#%d" % k for k in a), r(b), s)
    if t == "cx":
        return "(PBASE(%d)PPA(%s)PPB(%s))" % (i, r(a), r(b))
    if t in ("inode", "isubnode", "ione", "itwo"):
        return "%s(%d)" % (t.upper(), i)
    if t in ("iholder", "isub"):
        return "%s((%s),%s)" % (t.upper(), ",".join("#%d" % k for k in a), r(b))
    if t in ("ilink", "ipair"):
        return "%s(%s,%s)" % (t.upper(), r(a), r(b))
    raise ValueError(t)


def file_text(P, variant=0):
    head = "ISO-10303-21;\n" + p21.HEADER % "LAZY" + "DATA;\n"
    body = []
    for k, x in enumerate(P):
        if variant % 3 == 1 and k == 1:
            body.append("/* #%d=PNODE(9,#%d); ( ' */\n" % (P[0]["id"], P[0]["id"]))
        sep = " " if variant % 2 else ""
        body.append("#%d%s=%s%s;\n" % (x["id"], sep, sep, inst_text(x, variant + k)))
    return head + "".join(body) + "ENDSEC;\nEND-ISO-10303-21;\n"


def script(path, P, order):
    maxid = max(x["id"] for x in P) + 2
    L = ["eager " + path, "open %s %d" % (path, maxid)]
    L += ["deps %d" % x["id"] for x in P]
    ids = [x["id"] for x in P]
    if order.startswith("each:"):       # a fresh session that loads one instance only (twice)
        ids = [int(order[5:])]
    if order == "desc":
        ids = ids[::-1]
    L += ["load %d" % i for i in ids] + ["load %d" % i for i in ids]
    return L


def events(P, lines, res):
    """driver results -> trace events (Given, Open, Deps, Load | Crash)"""
    ev = [{"e": "Given", "pop": P}]
    eager = {}
    for cmdline, rr in zip(lines, res + [None] * (len(lines) - len(res))):
        cmd = cmdline.split()[0]
        if rr is None or rr.get("cmd") == "crash":
            arg = cmdline.split()[1]
            ev.append({"e": "Crash", "during": cmd, "id": int(arg) if arg.isdigit() else 0,
                       "rc": (rr or {}).get("rc", -1)})
            break
        if cmd == "eager":
            eager = {i[0]: i[2] for i in rr["insts"]}
        elif cmd == "open":
            ev.append({"e": "Open", "index": [[i, t.lower()] for i, t in rr["index"]], "fwd": rr["fwd"], "rev": rr["rev"],
                       "total": rr["total"]})
        elif cmd == "deps":
            ev.append({"e": "Deps", "id": rr["id"], "set": rr["set"]})
        elif cmd == "load":
            same = bool(rr.get("ok")) and rr.get("ser") == eager.get(rr["id"]) and rr.get("fid") == rr["id"]
            ev.append({"e": "Load", "id": rr["id"], "ok": bool(rr.get("ok")), "same": same,
                       "ser": rr.get("ser", ""), "eager": eager.get(rr["id"], ""), "loaded": rr.get("loaded", -1),
                       "inv": rr.get("inv", [])})
    return [json.dumps(e) for e in ev]

"""Parsing of the EXPRESS front end's diagnostics (stderr lines) with the message table of src/express/error.c."""
import os
import re

from .common import REPO

_line = re.compile(r"^(?P<file>.*?):(?P<line>-?\d+): (?P<sev>--ERROR|WARNING) P[EW](?P<num>\d+): (?P<msg>.*)$")


def table():
    """[(NAME, severity, template, warning class or None, regex)] from the LibErrors initialiser."""
    src = open(os.path.join(REPO, "src", "express", "error.c"), errors="replace").read()
    out = []
    for m in re.finditer(r'\[(\w+)\]\s*=\s*\{\s*(SEVERITY_\w+)\s*,\s*((?:"(?:[^"\\]|\\.)*"\s*)+),\s*(NULL|"[^"]*")\s*,', src):
        tmpl = "".join(re.findall(r'"((?:[^"\\]|\\.)*)"', m.group(3)))
        cls = None if m.group(4) == "NULL" else m.group(4).strip('"')
        rx = ""
        pos = 0
        for f in re.finditer(r"%[sdcxf]", tmpl):
            rx += re.escape(tmpl[pos:f.start()])
            rx += {"%s": "(.*?)", "%d": "(-?\\d+)", "%c": "(.)", "%x": "([0-9a-fA-F]+)", "%f": "(\\S+)"}[f.group(0)]
            pos = f.end()
        rx += re.escape(tmpl[pos:])
        out.append((m.group(1), m.group(2), tmpl, cls, re.compile("^" + rx + "$", re.S)))
    return out


def parse(stderr_text, tbl):
    """-> list of dict(file, line, sev, num, msg, code, args, cls)"""
    diags = []
    for ln in stderr_text.split("\n"):
        m = _line.match(ln)
        if not m:
            continue
        d = dict(file=m.group("file"), line=int(m.group("line")), sev="ERROR" if m.group("sev") == "--ERROR" else "WARNING",
                 num=int(m.group("num")), msg=m.group("msg"), code="", args=[], cls="")
        for name, sev, tmpl, cls, rx in tbl:
            mm = rx.match(d["msg"])
            if mm and (sev == "SEVERITY_WARNING") == (d["sev"] == "WARNING"):
                d["code"], d["args"], d["cls"] = name, list(mm.groups()), cls or ""
                break
        diags.append(d)
    return diags

"""Parsing of the EXPRESS front end's diagnostics (stderr lines) with the message table of src/express/error.c."""
import os
import re

from .common import REPO

_line = re.compile(r"^(?P<file>.*?):(?P<line>-?\d+): (?P<sev>--ERROR|WARNING) P[EW](?P<num>\d+): (?P<msg>.*)$")


def table():
    """[(NAME, severity, template, warning class or None, regex)] from the LibErrors initialiser."""
    src = open(os.path.join(REPO, "src", "express", "error.c"), errors="replace").read()
    out = []
    for m in re.finditer(r'\[(\w+)\]\s*=\s*\{\s*(SEVERITY_\w+)\s*,\s*((?:"(?:[^"\\]|\\.)*"\s*)+),\s*(NULL|"[^"]*")\s*,', src):
        tmpl = "".join(re.findall(r'"((?:[^"\\]|\\.)*)"', m.group(3)))
        cls = None if m.group(4) == "NULL" else m.group(4).strip('"')
        rx = ""
        pos = 0
        for f in re.finditer(r"%[sdcxf]", tmpl):
            rx += re.escape(tmpl[pos:f.start()])
            rx += {"%s": "(.*?)", "%d": "(-?\\d+)", "%c": "(.)", "%x": "([0-9a-fA-F]+)", "%f": "(\\S+)"}[f.group(0)]
            pos = f.end()
        rx += re.escape(tmpl[pos:])
        out.append((m.group(1), m.group(2), tmpl, cls, re.compile("^" + rx + "$", re.S)))
    return out


def numbers():
    """{error number: NAME} from enum ErrorCode (the PE/PW number printed with every diagnostic)"""
    src = open(os.path.join(REPO, "include", "express", "error.h"), errors="replace").read()
    m = re.search(r"enum\s+ErrorCode\s*\{(.*?)\}", src, re.S)
    body = re.sub(r"/\*.*?\*/", "", m.group(1), flags=re.S) if m else ""
    out, n = {}, 0
    for item in body.split(","):
        item = item.strip()
        if not item:
            continue
        mm = re.match(r"(\w+)\s*(?:=\s*(\d+))?$", item)
        if not mm:
            continue
        n = int(mm.group(2)) if mm.group(2) else n + 1
        out[n] = mm.group(1)
    return out


_NUM = {}


def parse(stderr_text, tbl):
    """-> list of dict(file, line, sev, num, msg, code, args, cls)"""
    diags = []
    for ln in stderr_text.split("\n"):
        m = _line.match(ln)
        if not m:
            continue
        d = dict(file=m.group("file"), line=int(m.group("line")), sev="ERROR" if m.group("sev") == "--ERROR" else "WARNING",
                 num=int(m.group("num")), msg=m.group("msg"), code="", args=[], cls="")
        # the message of the printed number first (several templates are so general that they match other messages too),
        # then any template that fits
        if REPO not in _NUM:
            _NUM[REPO] = numbers()
        own = _NUM[REPO].get(d["num"])
        for name, sev, tmpl, cls, rx in sorted(tbl, key=lambda e: e[0] != own):
            mm = rx.match(d["msg"])
            if mm and (sev == "SEVERITY_WARNING") == (d["sev"] == "WARNING"):
                d["code"], d["args"], d["cls"] = name, list(mm.groups()), cls or ""
                break
        diags.append(d)
    return diags

"""Shared paths and small helpers for the verification harness."""
import hashlib
import json
import os
import subprocess
import sys
import time

VERIF = os.path.dirname(os.path.dirname(os.path.dirname(os.path.abspath(__file__))))
REPO = os.environ.get("VERIF_REPO", "/repo")
# a non-default repository (mutant self-test on a scratch copy) gets its own work area
_suffix = "" if REPO == "/repo" else "-" + hashlib.sha1(REPO.encode()).hexdigest()[:8]
WORK = os.environ.get("VERIF_WORK", os.path.join(VERIF, ".work" + _suffix))
SPEC = os.path.join(VERIF, "spec")
# (evidence of a run against a scratch tree never replaces the evidence of /repo)
EVID = os.path.join(VERIF, "evidence") if REPO == "/repo" else os.path.join(WORK, "evidence")
NCPU = os.cpu_count() or 4


def seed():
    try:
        return int(os.environ.get("VERIF_SEED", "1"))
    except ValueError:
        return 1


def log(*a):
    print("[verif]", *a, file=sys.stderr, flush=True)


def mkdir(p):
    os.makedirs(p, exist_ok=True)
    return p


class InfraError(Exception):
    """Harness/infrastructure failure (never reported as a VIOLATION)."""


def run(cmd, timeout=600, cwd=None, env=None, input=None, check=False, text=True, stdout=subprocess.PIPE,
        stderr=subprocess.PIPE):
    """Run a command under a timeout; returns CompletedProcess, returncode 124 on timeout."""
    e = dict(os.environ)
    if env:
        e.update(env)
    try:
        p = subprocess.run(cmd, cwd=cwd, env=e, input=input, stdout=stdout, stderr=stderr, text=text,
                           timeout=timeout, errors="replace" if text else None)
    except subprocess.TimeoutExpired as ex:
        out = ex.stdout if ex.stdout is not None else ("" if text else b"")
        err = ex.stderr if ex.stderr is not None else ("" if text else b"")
        if text and isinstance(out, bytes):
            out = out.decode(errors="replace")
        if text and isinstance(err, bytes):
            err = err.decode(errors="replace")
        p = subprocess.CompletedProcess(cmd, 124, out, err)
    if check and p.returncode != 0:
        raise InfraError("command failed (%d): %s\n%s\n%s" % (p.returncode, " ".join(map(str, cmd)),
                                                            (p.stdout or "")[-2000:], (p.stderr or "")[-4000:]))
    return p


def sha(*parts):
    h = hashlib.sha256()
    for p in parts:
        if isinstance(p, str):
            p = p.encode()
        h.update(p)
        h.update(b"\0")
    return h.hexdigest()


def file_sha(path):
    h = hashlib.sha256()
    with open(path, "rb") as f:
        for blk in iter(lambda: f.read(1 << 20), b""):
            h.update(blk)
    return h.hexdigest()


def write_json(path, obj):
    mkdir(os.path.dirname(path))
    tmp = path + ".tmp%d" % os.getpid()
    with open(tmp, "w") as f:
        json.dump(obj, f, indent=1, sort_keys=False)
        f.write("\n")
    os.replace(tmp, path)


class Timer:
    def __init__(self):
        self.t0 = time.time()

    def s(self):
        return round(time.time() - self.t0, 2)

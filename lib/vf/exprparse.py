"""EXPRESS tokenizer and expression parser driven by the precedence table of spec/Expr.tla (exported by TLC)."""
import re

_tok = re.compile(r"""
    (?P<ws>\s+)
  | (?P<rem>\(\*.*?\*\))
  | (?P<tail>--[^\n]*)
  | (?P<str>'(?:[^']|'')*')
  | (?P<real>\d+\.\d*(?:[eE][+-]?\d+)?)
  | (?P<int>\d+)
  | (?P<id>[A-Za-z][A-Za-z0-9_]*)
  | (?P<op>:=:|:<>:|<\*|\*\*|<=|>=|<>|:=|\|\||[-+*/=<>(){}\[\],;:.\\|?])
""", re.X | re.S)
WORDOPS = {"DIV", "MOD", "AND", "OR", "XOR", "NOT", "IN", "LIKE"}
ASSOC = {"+", "*", "AND", "OR", "XOR", "||"}


class ParseError(Exception):
    pass


def tokenize(text, tolerant=False):
    out, pos = [], 0
    while pos < len(text):
        m = _tok.match(text, pos)
        if not m:
            if tolerant:        # e.g. an unbalanced quote in a printer's output: keep going, mark the spot
                out.append(("bad", text[pos]))
                pos += 1
                continue
            raise ParseError("lexical error at %r" % text[pos:pos + 20])
        k = m.lastgroup
        if k not in ("ws", "rem", "tail"):
            v = m.group(k)
            if k == "id" and v.upper() in WORDOPS:
                out.append(("op", v.upper()))
            elif k == "id":
                out.append(("id", v.lower()))
            else:
                out.append((k, v))
        pos = m.end()
    return out


class ExprParser:
    def __init__(self, toks, prec):
        self.t, self.i, self.prec = toks, 0, prec
        self.rows = sorted(set(prec.values()), reverse=True)      # loosest first

    def peek(self):
        return self.t[self.i] if self.i < len(self.t) else ("eof", "")

    def next(self):
        x = self.peek()
        self.i += 1
        return x

    def expect(self, v):
        k, x = self.next()
        if x != v:
            raise ParseError("expected %r, got %r" % (v, x))

    def expr(self, row=0):
        if row >= len(self.rows):
            return self.unary()
        level = self.rows[row]
        left = self.expr(row + 1)
        while True:
            k, v = self.peek()
            if k == "op" and self.prec.get(v) == level:
                self.next()
                right = self.expr(row + 1)
                left = {"k": "bin", "op": v, "l": left, "r": right}
            else:
                return left

    def unary(self):
        k, v = self.peek()
        if k == "op" and v in ("+", "-", "NOT"):
            self.next()
            return {"k": "un", "op": v, "a": self.unary()}
        return self.postfix(self.primary())

    def postfix(self, e):
        """qualifiers: .attr  \\group  [index]"""
        while True:
            t = self.peek()
            if t == ("op", "."):
                self.next()
                e = {"k": "dot", "a": e, "name": self.next()[1]}
            elif t == ("op", "\\"):
                self.next()
                e = {"k": "group", "a": e, "name": self.next()[1]}
            elif t == ("op", "[") and e["k"] in ("id", "dot", "group", "index", "call"):
                self.next()
                i = self.expr()
                self.expect("]")
                e = {"k": "index", "a": e, "i": i}
            else:
                return e

    def primary(self):
        k, v = self.next()
        if k == "int":
            return {"k": "int", "v": v}
        if k == "real":
            return {"k": "real", "v": v}
        if k == "str":
            return {"k": "str", "v": v[1:-1]}
        if (k, v) == ("op", "("):
            e = self.expr()
            self.expect(")")
            return e
        if (k, v) == ("op", "["):
            items = []
            if self.peek() != ("op", "]"):
                while True:
                    e = self.expr()
                    if self.peek() == ("op", ":"):
                        self.next()
                        e = {"k": "rep", "a": e, "n": self.expr()}
                    items.append(e)
                    if self.peek() == ("op", ","):
                        self.next()
                        continue
                    break
            self.expect("]")
            return {"k": "agg", "items": items}
        if (k, v) == ("op", "{"):
            lo = self.expr(len(self.rows) - 1 - 0) if False else self.simple()
            lop = self.next()[1]
            x = self.simple()
            hop = self.next()[1]
            hi = self.simple()
            self.expect("}")
            return {"k": "interval", "lo": lo, "lop": lop, "x": x, "hop": hop, "hi": hi}
        if k == "id" and v == "query" and self.peek() == ("op", "("):
            self.next()
            var = self.next()[1]
            self.expect("<*")
            src = self.expr()
            self.expect("|")
            cond = self.expr()
            self.expect(")")
            return {"k": "query", "v": var, "src": src, "cond": cond}
        if k == "id":
            if self.peek() == ("op", "("):
                self.next()
                args = []
                if self.peek() != ("op", ")"):
                    while True:
                        args.append(self.expr())
                        if self.peek() == ("op", ","):
                            self.next()
                            continue
                        break
                self.expect(")")
                return {"k": "call", "f": v, "args": args}
            return {"k": "id", "v": v}
        raise ParseError("unexpected token %r" % (v,))

    def simple(self):
        """simple_expression: everything that binds tighter than the relational row"""
        return self.expr(1)


def parse_expr(toks, prec):
    p = ExprParser(toks, prec)
    e = p.expr()
    if p.i != len(toks):
        raise ParseError("trailing tokens %r" % (toks[p.i:p.i + 4],))
    return e


def norm(e):
    """normal form for comparison: literal values, lower-case names, expanded intervals left as they are"""
    k = e["k"]
    if k == "int":
        return ("int", int(e["v"]))
    if k == "real":
        return ("real", float(e["v"]))
    if k == "str":
        return ("str", e["v"].replace("''", "'"))
    if k == "id":
        return ("id", e["v"].lower())
    if k == "un":
        if e["op"] == "+":          # the identity: a printer may drop it (weaker, meaning-preserving reading)
            return norm(e["a"])
        return ("un", e["op"], norm(e["a"]))
    if k == "bin":
        l, r = norm(e["l"]), norm(e["r"])
        if e["op"] == "+" and l[0] == "str" and r[0] == "str":        # a long string split by the printer
            return ("str", l[1] + r[1])
        if e["op"] in ASSOC:
            # chains of one associative operator are compared as flat operand lists: a op (b op c) and
            # (a op b) op c are the weaker, meaning-preserving reading of "up to redundant parentheses"
            ops = []
            for x in (l, r):
                if x[0] == "chain" and x[1] == e["op"]:
                    ops.extend(x[2])
                else:
                    ops.append(x)
            return ("chain", e["op"], tuple(ops))
        return ("bin", e["op"], l, r)
    if k == "call":
        return ("call", e["f"].lower(), tuple(norm(a) for a in e["args"]))
    if k == "agg":
        return ("agg", tuple(norm(a) for a in e["items"]))
    if k == "rep":
        return ("rep", norm(e["a"]), norm(e["n"]))
    if k == "query":
        return ("query", e["v"].lower(), norm(e["src"]), norm(e["cond"]))
    if k in ("dot", "group"):
        return (k, norm(e["a"]), e["name"].lower())
    if k == "index":
        return ("index", norm(e["a"]), norm(e["i"]))
    if k == "interval":
        # {lo lop x hop hi} and its expansion (lo lop x) AND (x hop hi) are one form (the parser desugars it)
        return norm({"k": "bin", "op": "AND", "l": {"k": "bin", "op": e["lop"], "l": e["lo"], "r": e["x"]},
                     "r": {"k": "bin", "op": e["hop"], "l": e["x"], "r": e["hi"]}})
    raise ValueError(k)
